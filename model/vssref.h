/*
 * vssref.h - reference ACF-VSS codec written from examples/acf-vss/protocol_description/acf-vss.md
 * (not from the library): byte-wise, big-endian, independent of host byte order.
 *
 * Logical values: every scalar and every array element is carried as a uint64_t bit pattern
 * (two's complement for signed types, IEEE-754 bit pattern for float/double).
 */
#ifndef VSSREF_H
#define VSSREF_H
#include <stdint.h>
#include <stddef.h>

enum { VK_SCALAR, VK_STRING, VK_ARRAY, VK_STRARRAY, VK_RESERVED };

typedef struct {
    uint8_t  code;
    uint8_t  kind;
    uint8_t  esize;        /* element size in bytes (1,2,4,8); strings: 1 */
    const char* name;
} vss_dt_t;

const vss_dt_t* vssref_datatype(uint32_t code);   /* never NULL; kind VK_RESERVED for undefined codes */

/* path: returns encoded size.  mode 1: static id (32-bit BE).  mode 0: 16-bit BE length + bytes. */
size_t vssref_encode_path(uint8_t* out, uint32_t mode, uint32_t static_id, const uint8_t* path, uint32_t path_len);
/* value: elems[] holds nelem logical values (scalars: nelem == 1; strings/strarray: raw bytes in 'bytes') */
size_t vssref_encode_value(uint8_t* out, const vss_dt_t* dt, const uint64_t* elems, uint32_t nelem, const uint8_t* bytes, uint32_t nbytes);

/* decoding of the reference (used to cross-check the encoder and as the decode oracle) */
size_t   vssref_path_size(const uint8_t* msg12, uint32_t mode);              /* msg12 points at byte 12 of the message */
uint64_t vssref_be(const uint8_t* p, uint32_t n);                            /* n-byte big-endian integer */
void     vssref_put_be(uint8_t* p, uint32_t n, uint64_t v);

/* string array packing: concatenation of (16-bit BE length, bytes) */
size_t vssref_pack_strings(uint8_t* out, const uint8_t* const* strs, const uint16_t* lens, uint32_t n);
#endif
