#include "vssref.h"
#include <string.h>

static const vss_dt_t table[] = {
    { 0x00, VK_SCALAR, 1, "uint8" },  { 0x01, VK_SCALAR, 1, "int8" },   { 0x02, VK_SCALAR, 2, "uint16" }, { 0x03, VK_SCALAR, 2, "int16" },
    { 0x04, VK_SCALAR, 4, "uint32" }, { 0x05, VK_SCALAR, 4, "int32" },  { 0x06, VK_SCALAR, 8, "uint64" }, { 0x07, VK_SCALAR, 8, "int64" },
    { 0x08, VK_SCALAR, 1, "bool" },   { 0x09, VK_SCALAR, 4, "float" },  { 0x0A, VK_SCALAR, 8, "double" }, { 0x0B, VK_STRING, 1, "string" },
    { 0x80, VK_ARRAY, 1, "uint8[]" },  { 0x81, VK_ARRAY, 1, "int8[]" },  { 0x82, VK_ARRAY, 2, "uint16[]" }, { 0x83, VK_ARRAY, 2, "int16[]" },
    { 0x84, VK_ARRAY, 4, "uint32[]" }, { 0x85, VK_ARRAY, 4, "int32[]" }, { 0x86, VK_ARRAY, 8, "uint64[]" }, { 0x87, VK_ARRAY, 8, "int64[]" },
    { 0x88, VK_ARRAY, 1, "bool[]" },   { 0x89, VK_ARRAY, 4, "float[]" }, { 0x8A, VK_ARRAY, 8, "double[]" }, { 0x8B, VK_STRARRAY, 1, "string[]" },
};
static const vss_dt_t reserved = { 0xff, VK_RESERVED, 0, "reserved" };

const vss_dt_t* vssref_datatype(uint32_t code)
{
    for (unsigned i = 0; i < sizeof(table) / sizeof(table[0]); i++) if (table[i].code == code) return &table[i];
    return &reserved;
}

void vssref_put_be(uint8_t* p, uint32_t n, uint64_t v)
{
    for (uint32_t i = 0; i < n; i++) p[i] = (uint8_t)(v >> (8 * (n - 1 - i)));
}

uint64_t vssref_be(const uint8_t* p, uint32_t n)
{
    uint64_t v = 0;
    for (uint32_t i = 0; i < n; i++) v = (v << 8) | p[i];
    return v;
}

size_t vssref_encode_path(uint8_t* out, uint32_t mode, uint32_t static_id, const uint8_t* path, uint32_t path_len)
{
    if (mode == 1) { vssref_put_be(out, 4, static_id); return 4; }
    if (mode == 0) { vssref_put_be(out, 2, path_len); if (path_len) memcpy(out + 2, path, path_len); return 2 + (size_t)path_len; }
    return 0;
}

size_t vssref_path_size(const uint8_t* msg12, uint32_t mode)
{
    if (mode == 1) return 4;
    if (mode == 0) return 2 + (size_t)vssref_be(msg12, 2);
    return 0;
}

size_t vssref_encode_value(uint8_t* out, const vss_dt_t* dt, const uint64_t* elems, uint32_t nelem, const uint8_t* bytes, uint32_t nbytes)
{
    switch (dt->kind) {
    case VK_SCALAR:
        vssref_put_be(out, dt->esize, elems[0]);
        return dt->esize;
    case VK_STRING:
    case VK_STRARRAY:
        vssref_put_be(out, 2, nbytes);
        if (nbytes) memcpy(out + 2, bytes, nbytes);
        return 2 + (size_t)nbytes;
    case VK_ARRAY:
        vssref_put_be(out, 2, (uint64_t)nelem * dt->esize);
        for (uint32_t i = 0; i < nelem; i++) vssref_put_be(out + 2 + (size_t)i * dt->esize, dt->esize, elems[i]);
        return 2 + (size_t)nelem * dt->esize;
    default:
        return 0;
    }
}

size_t vssref_pack_strings(uint8_t* out, const uint8_t* const* strs, const uint16_t* lens, uint32_t n)
{
    size_t o = 0;
    for (uint32_t i = 0; i < n; i++) {
        vssref_put_be(out + o, 2, lens[i]);
        if (lens[i]) memcpy(out + o + 2, strs[i], lens[i]);
        o += 2 + (size_t)lens[i];
    }
    return o;
}
