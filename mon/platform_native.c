/*
 * platform_native.c - the native side of the monitors: output, configuration, memory with
 * guard pages, fault capture, current-op record for sanitizer reports.  Always compiled for
 * the real host (never through the big-endian pipeline).
 */
#define _GNU_SOURCE
#include <stdio.h>
#include <stdlib.h>
#include <string.h>
#include <unistd.h>
#include <signal.h>
#include <setjmp.h>
#include <sched.h>
#include <time.h>
#include <sys/mman.h>
#include <sys/time.h>
#include <stdint.h>
#include <errno.h>

void vp_write(const char* buf, size_t n)
{
    /* one write per line keeps lines atomic between threads */
    size_t off = 0;
    while (off < n) {
        ssize_t k = write(1, buf + off, n - off);
        if (k < 0 && errno == EINTR) continue;      /* the progress watchdog's timer signal */
        if (k <= 0) _exit(3);
        off += (size_t)k;
    }
}

uint64_t vp_cfg_u64(const char* name, uint64_t dflt)
{
    char key[96];
    snprintf(key, sizeof key, "VP_%s", name);
    const char* v = getenv(key);
    if (!v || !*v) return dflt;
    return strtoull(v, NULL, 0);
}

const char* vp_cfg_str(const char* name, const char* dflt)
{
    char key[96];
    snprintf(key, sizeof key, "VP_%s", name);
    const char* v = getenv(key);
    return (v && *v) ? v : dflt;
}

static size_t pagesz(void) { static size_t p; if (!p) p = (size_t)sysconf(_SC_PAGESIZE); return p; }
static size_t roundup(size_t n) { size_t p = pagesz(); return (n + p - 1) / p * p; }

uint8_t* vp_map(size_t n)
{
    void* p = mmap(NULL, roundup(n ? n : 1), PROT_READ | PROT_WRITE, MAP_PRIVATE | MAP_ANONYMOUS, -1, 0);
    if (p == MAP_FAILED) { fprintf(stderr, "vp_map failed\n"); _exit(3); }
    return (uint8_t*)p;
}

/* n bytes at exactly this address, or NULL when the range is not free (MAP_FIXED_NOREPLACE) */
#ifndef MAP_FIXED_NOREPLACE
#define MAP_FIXED_NOREPLACE 0x100000
#endif
uint8_t* vp_map_at(uint64_t addr, size_t n)
{
    void* p = mmap((void*)(uintptr_t)addr, roundup(n ? n : 1), PROT_READ | PROT_WRITE, MAP_PRIVATE | MAP_ANONYMOUS | MAP_FIXED_NOREPLACE, -1, 0);
    if (p == MAP_FAILED) return 0;
    if ((uintptr_t)p != (uintptr_t)addr) { munmap(p, roundup(n ? n : 1)); return 0; }
    return (uint8_t*)p;
}

void vp_unmap(uint8_t* p, size_t n) { if (p) munmap(p, roundup(n ? n : 1)); }

/* [guard page][data pages][guard page]; returns pointer so that p+n is the trailing guard */
uint8_t* vp_guard_end(size_t n)
{
    size_t body = roundup(n ? n : 1), pg = pagesz();
    uint8_t* base = mmap(NULL, body + 2 * pg, PROT_NONE, MAP_PRIVATE | MAP_ANONYMOUS, -1, 0);
    if (base == MAP_FAILED) { fprintf(stderr, "vp_guard_end failed\n"); _exit(3); }
    mprotect(base + pg, body, PROT_READ | PROT_WRITE);
    memset(base + pg, 0x5a, body);
    return base + pg + body - n;
}

uint8_t* vp_guard_begin(size_t n)
{
    size_t body = roundup(n ? n : 1), pg = pagesz();
    uint8_t* base = mmap(NULL, body + 2 * pg, PROT_NONE, MAP_PRIVATE | MAP_ANONYMOUS, -1, 0);
    if (base == MAP_FAILED) { fprintf(stderr, "vp_guard_begin failed\n"); _exit(3); }
    mprotect(base + pg, body, PROT_READ | PROT_WRITE);
    memset(base + pg, 0x5a, body);
    return base + pg;
}

/* whole pages starting at a vp_map() result: make them read-only / writable again */
void vp_readonly(uint8_t* page, size_t n, int on) { mprotect(page, roundup(n ? n : 1), on ? PROT_READ : (PROT_READ | PROT_WRITE)); }

void vp_guard_free(uint8_t* p, size_t n)
{
    size_t body = roundup(n ? n : 1), pg = pagesz();
    uint8_t* base = (((uintptr_t)(p + n)) % pg == 0) ? p + n - body - pg : p - pg;
    munmap(base, body + 2 * pg);
}

uint8_t* vp_heap(size_t n)
{
    uint8_t* p = malloc(n ? n : 1);
    if (!p) _exit(3);
    return p;
}

void vp_heap_free(uint8_t* p) { free(p); }

/* ---------------------------------------------------------------- fault capture */
static __thread sigjmp_buf* cur_jmp;
static __thread volatile int in_try;

static void on_fault(int sig, siginfo_t* si, void* uc)
{
    (void)si; (void)uc;
    if (in_try && cur_jmp) siglongjmp(*cur_jmp, sig);
    /* not ours: die the default way so the orchestrator sees the signal */
    signal(sig, SIG_DFL);
    raise(sig);
}

static void install(void)
{
    static int done;
    if (done) return;
    done = 1;
    struct sigaction sa;
    memset(&sa, 0, sizeof sa);
    sa.sa_sigaction = on_fault;
    sa.sa_flags = SA_SIGINFO | SA_NODEFER;
    sigaction(SIGSEGV, &sa, NULL);
    sigaction(SIGBUS, &sa, NULL);
    sigaction(SIGFPE, &sa, NULL);
    sigaction(SIGILL, &sa, NULL);
    sigaction(SIGVTALRM, &sa, NULL);     /* CPU-time watchdog of vp_try: a call that spins is reported, not waited for */
}

static const char* vp_curop_any(void);
int vp_try(void (*fn)(void*), void* arg)
{
    sigjmp_buf jb;
    sigjmp_buf* prev = cur_jmp;
    install();
    int sig = sigsetjmp(jb, 1);
    struct itimerval it, off;
    memset(&it, 0, sizeof it); memset(&off, 0, sizeof off);
    it.it_value.tv_sec = 5;                      /* CPU seconds (ITIMER_VIRTUAL), far above any legitimate call */
    if (sig == 0) {
        cur_jmp = &jb; in_try = 1;
        if (!prev) setitimer(ITIMER_VIRTUAL, &it, NULL);
        fn(arg);
        if (!prev) setitimer(ITIMER_VIRTUAL, &off, NULL);
        in_try = prev != NULL; cur_jmp = prev;
        return 0;
    }
    if (!prev) setitimer(ITIMER_VIRTUAL, &off, NULL);
    in_try = prev != NULL; cur_jmp = prev;
    if (sig == SIGVTALRM) {
        /* a third call of this process that spins: stop here instead of waiting 5 s for every remaining case */
        static int spins;
        if (++spins >= 3) {
            char line[400]; int n = snprintf(line, sizeof line, "V|hang:three-calls-exceeded-the-5s-cpu-watchdog:%s|{\"note\":\"vp_try watchdog\"}\nEND|watchdog\n", vp_curop_any());
            vp_write(line, (size_t)n);
            _exit(0);
        }
    }
    return sig;
}

/* ---------------------------------------------------------------- current-op record */
static __thread char curop[256];
static char curop_any[256];          /* copy readable from the watchdog handler whatever thread it runs on */
static const char* vp_curop_any(void) { return curop_any; }

/* ---------------------------------------------------------------- progress watchdog
 * Monitors call the library all the time; when no call has been *started* for 14-21 CPU seconds of the process
 * (ITIMER_PROF: immune to machine load) a library call is spinning.  The handler reports it as a violation keyed by the
 * operation in progress and ends the process, so that a change that makes a call loop forever is a verdict and not a
 * time-out.  Calls made under vp_try() have their own 5 s watchdog and are reported there. */
extern volatile unsigned long vp_progress_counter;
static void on_prof(int sig)
{
    static unsigned long last = ~0ul; static int strikes;
    (void)sig;
    unsigned long now = vp_progress_counter;
    if (now != last) { last = now; strikes = 0; return; }
    if (++strikes < 2) return;
    char line[400]; int n = snprintf(line, sizeof line, "V|hang:no-library-call-started-for-14-cpu-seconds:%s|{\"note\":\"progress watchdog\"}\nEND|watchdog\n", curop_any);
    for (int i = 5; i < n - 60 && line[i] != '{'; i++) if (line[i] == '|' && i > 50) line[i] = ':';
    vp_write(line, (size_t)n);
    _exit(0);
}

void vp_watchdog_start(void)
{
    static int started;
    if (started) return;
    started = 1;
    struct sigaction sa; memset(&sa, 0, sizeof sa); sa.sa_handler = on_prof; sa.sa_flags = SA_RESTART;
    sigaction(SIGPROF, &sa, NULL);
    struct itimerval it; memset(&it, 0, sizeof it);
    it.it_value.tv_sec = 7; it.it_interval.tv_sec = 7;
    setitimer(ITIMER_PROF, &it, NULL);
}

void vp_curop(const char* a, const char* b, const char* c, uint64_t n)
{
    snprintf(curop, sizeof curop, "%s|%s|%s|%llu", a ? a : "", b ? b : "", c ? c : "", (unsigned long long)n);
    snprintf(curop_any, sizeof curop_any, "%s:%s:%s", a ? a : "", b ? b : "", c ? c : "");
}

/* called by ASan just before it prints a report */
void __asan_on_error(void)
{
    fprintf(stderr, "VP-CUROP: %s\n", curop);
    fflush(stderr);
}

const char* vp_curop_get(void) { return curop; }

void vp_yield(uint64_t r)
{
    switch (r & 7) {
    case 0: sched_yield(); break;
    case 1: { struct timespec ts = { 0, (long)((r >> 3) % 50000) }; nanosleep(&ts, NULL); break; }
    default: break;
    }
}
