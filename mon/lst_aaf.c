/* lst_aaf.c - drives new_packet() of examples/aaf/aaf-listener.c (C18) */
#include "lst_common.h"
static ssize_t lst_recv(int fd, void* buf, size_t n, int flags);
#define main listener_main
#define recv lst_recv
#include "aaf/aaf-listener.c"
#undef main
#undef recv
static ssize_t lst_recv(int fd, void* buf, size_t n, int flags) { return recv(fd, buf, n, flags); }

static const char* lst_name(void) { return "aaf-listener"; }
static int lst_nmodes(void) { return 1; }
static const char* lst_mode_name(int m) { (void)m; return "raw"; }

static size_t build_valid(vp_rng_t* r, uint8_t* b, uint8_t seq)
{
    Avtp_Pcm_t* p = (Avtp_Pcm_t*)b;
    Avtp_Pcm_Init(p);
    Avtp_Pcm_SetTv(p, 1); Avtp_Pcm_SetStreamId(p, STREAM_ID); Avtp_Pcm_SetSequenceNum(p, seq);
    Avtp_Pcm_SetFormat(p, AVTP_AAF_FORMAT_INT_16BIT); Avtp_Pcm_SetNsr(p, AVTP_AAF_PCM_NSR_48KHZ);
    Avtp_Pcm_SetChannelsPerFrame(p, NUM_CHANNELS); Avtp_Pcm_SetBitDepth(p, 16); Avtp_Pcm_SetStreamDataLength(p, DATA_LEN);
    Avtp_Pcm_SetAvtpTimestamp(p, (uint32_t)vp_rng_next(r));
    vp_rng_fill(r, b + 24, DATA_LEN);
    return 24 + DATA_LEN;
}

static void lst_make_sequence(vp_rng_t* r, int mode, uint64_t idx, seq_t* s)
{
    (void)mode;
    int nd = 1 + (int)vp_rng_below(r, 3);
    const char* name = "?";
    for (int d = 0; d < nd; d++) {
        uint8_t b[DGRAM_MAX]; memset(b, 0, sizeof b);
        size_t n = build_valid(r, b, (uint8_t)d);
        switch ((idx + (uint64_t)d * 3) % 9) {
        case 0: name = "valid"; break;
        case 1: name = "truncate"; n = (size_t)vp_rng_below(r, n); break;
        case 2: name = "longer"; n += 1 + (size_t)vp_rng_below(r, 1400); vp_rng_fill(r, b + 28, n - 28); break;
        case 3: name = "empty-datagram"; n = 0; break;
        case 4: name = "random-bytes-exact-size"; vp_rng_fill(r, b, n); break;
        case 5: name = "bit-flips"; mutate_bytes(r, b, n, 1 + (int)vp_rng_below(r, 4)); break;
        case 6: name = "data-length-lie"; Avtp_Pcm_SetStreamDataLength((Avtp_Pcm_t*)b, (uint16_t)vp_rng_next(r)); break;
        case 7: name = "random-bytes"; n = (size_t)vp_rng_below(r, 1601); vp_rng_fill(r, b, n);   /* up to 100 bytes more than any receive buffer holds */ break;
        default: name = "wrong-subtype"; b[0] = (uint8_t)vp_rng_next(r); break;
        }
        seq_add(s, b, n);
    }
    snprintf(s->tmpl, sizeof s->tmpl, "%s", name);
}

static int lst_child(int mode, const seq_t* s)
{
    int pair[2]; (void)mode; (void)s;
    if (make_pair(pair) < 0) return EX_HARNESS;
    g_feed_fd = pair[0];
    STAILQ_INIT(&samples);
    int tfd = timerfd_create(CLOCK_REALTIME, 0);
    vp_rng_t r; vp_rng_seed(&r, 99, 1);
    g_sentinel_len = (int)build_valid(&r, g_sentinel, 200);
    memcpy(g_sentinel + 24, "SENT", 4);
    while (feed_next()) {
        new_packet(pair[1], tfd);
        budget_stop();
        if (g_in_sentinel) {
            struct sample_entry* e; struct sample_entry* last = 0;
            STAILQ_FOREACH(e, &samples, entries) last = e;
            if (!last || memcmp(last->pcm_sample, "SENT", 4) != 0) {
                fprintf(stderr, "VP-SENTINEL: valid AAF packet after the hostile sequence was not queued correctly\n");
                return EX_SENTINEL;
            }
        }
    }
    return EX_OK;
}
#ifndef LST_FUZZ
int main(void) { return lst_driver_main(); }
#else
static void lst_fuzz_one(int mode, const uint8_t* d, size_t n)
{
    static int pair[2] = { -1, -1 }; static int tfd = -1;
    (void)mode;
    if (pair[0] < 0) { if (make_pair(pair) < 0) abort(); STAILQ_INIT(&samples); tfd = timerfd_create(CLOCK_REALTIME, 0); }
    if (send(pair[0], d, n, 0) < 0) abort();
    new_packet(pair[1], tfd);
    while (!STAILQ_EMPTY(&samples)) { struct sample_entry* e = STAILQ_FIRST(&samples); STAILQ_REMOVE_HEAD(&samples, entries); free(e); }
}
#endif
