/*
 * vp_bind.h - uniform descriptors through which the monitors reach the library.  One
 * generated translation unit per public header (spec/gen_bindings.py) fills one vp_format_t.
 */
#ifndef VP_BIND_H
#define VP_BIND_H

#include <stdint.h>
#include <stddef.h>

typedef uint64_t (*vp_get_fn)(void* pdu);
typedef void     (*vp_set_fn)(void* pdu, uint64_t v);

typedef struct vp_field {
    const char* name;        /* spec name                                   */
    const char* enum_name;   /* library enumerator                          */
    uint32_t    pos;         /* spec: absolute first bit, bit 0 = MSB byte 0 */
    uint32_t    width;       /* spec: width in bits (0: designates no bits)  */
    uint32_t    id;          /* value of the enumerator (bound at compile time) */
    vp_get_fn   dget;        /* dedicated getter thunk or NULL              */
    vp_set_fn   dset;        /* dedicated setter thunk or NULL              */
    const char* dget_name;
    const char* dset_name;
} vp_field_t;

typedef struct vp_alias {
    const char* macro;       /* legacy macro name                           */
    uint32_t    value;       /* its value in a TU that includes only this header */
    const char* field;       /* spec field it must designate                */
} vp_alias_t;

typedef struct vp_lstruct {
    const char* name;
    uint32_t    size, expect_size;
    uint32_t    payload_off, expect_payload_off;
} vp_lstruct_t;

typedef struct vp_format {
    const char* id;
    const char* header;
    const char* type_name;
    const char* lenmacro_name;
    uint32_t    spec_bytes;          /* wire size per the spec                 */
    uint32_t    sizeof_type;         /* sizeof(T)                              */
    uint32_t    offsetof_payload;    /* offsetof(T, payload)                   */
    uint32_t    lenmacro;            /* value of *_HEADER_LEN                  */
    uint32_t    nfields;
    const vp_field_t* fields;
    uint32_t    max_id;              /* value of the *_FIELD_MAX enumerator    */
    uint64_t  (*gget)(void* pdu, uint32_t id);
    void      (*gset)(void* pdu, uint32_t id, uint64_t v);
    void      (*init)(void* pdu);    /* or NULL                                */
    const uint8_t* image;            /* canonical post-init header or NULL     */
    /* legacy API (or NULLs) */
    int       (*lget)(void* pdu, uint32_t id, void* val);
    int       (*lset)(void* pdu, uint32_t id, uint64_t v);
    int       (*linit)(void* pdu, uint32_t arg);
    uint32_t    lvalbytes;           /* size of the legacy result object       */
    uint32_t    linit_argfield;      /* 1 + index of the field the init argument sets, 0: none */
    uint32_t    naliases;
    const vp_alias_t* aliases;
    uint32_t    has_alias_max, alias_max;
    uint32_t    nlstructs;
    const vp_lstruct_t* lstructs;
    uint8_t*  (*payload_ptr)(void* pdu);  /* payload accessor or NULL          */
    /* direct-call sequence: for every accessor pair, in ONE function and with direct calls (so that the optimiser sees
     * repeated identical calls): out = get; set(vals[i]); out = get; header := alt; out = get.  Returns number of outputs. */
    uint32_t  (*seq)(void* pdu, const uint8_t* alt, const uint64_t* vals, uint64_t* out);
    uint32_t    nseq_steps;          /* number of (get,set,get,replace,get) steps */
    const uint16_t* seq_field;       /* field index of every step */
    const uint8_t*  seq_path;        /* 0 generic, 1 dedicated, 2 legacy */
    const char* gget_name; const char* gset_name; const char* init_name;
} vp_format_t;

typedef struct vp_share {
    uint32_t fa, ia, fb, ib;         /* format index, field index (x2)         */
} vp_share_t;

extern const vp_format_t* const vp_formats[];
extern const uint32_t vp_nformats;
extern const vp_share_t vp_shares[];
extern const uint32_t vp_nshares;

const vp_format_t* vp_format_by_id(const char* id);

#endif
