/* tun_listener.c - the real receive path of examples/acf-can/acf-can-listener.c for the tunnel monitor (C19). */
#define _GNU_SOURCE
#include <sys/types.h>
#include <sys/socket.h>
#include <unistd.h>
#include <string.h>
static ssize_t tunl_write(int fd, const void* buf, size_t n);
#define main listener_main
#define write tunl_write
#include "acf-can/acf-can-listener.c"
#undef main
#undef write

#define TUNL_MAX 256
static frame_t out_frames[TUNL_MAX]; static size_t out_sizes[TUNL_MAX]; static int out_n;

static ssize_t tunl_write(int fd, const void* buf, size_t n)
{
    (void)fd;
    if (out_n < TUNL_MAX) { memset(&out_frames[out_n], 0, sizeof(frame_t)); memcpy(&out_frames[out_n], buf, n > sizeof(frame_t) ? sizeof(frame_t) : n); out_sizes[out_n] = n; out_n++; }
    return (ssize_t)n;
}
int create_listener_socket_udp(uint32_t p) { (void)p; return -1; }
int create_listener_socket(char* i, uint8_t m[], int p) { (void)i; (void)m; (void)p; return -1; }

void tunl_config(int udp, int fd) { use_udp = (uint8_t)udp; can_variant = fd ? AVTP_CAN_FD : AVTP_CAN_CLASSIC; }
/* deliver one packet to new_packet(); returns number of frames written, copies them out */
int tunl_packet(int feed_fd, int listen_fd, const uint8_t* pkt, size_t n, frame_t* frames, size_t* sizes, int max)
{
    out_n = 0;
    if (send(feed_fd, pkt, n, 0) < 0) return -1;
    new_packet(listen_fd, 99);
    int k = out_n < max ? out_n : max;
    memcpy(frames, out_frames, (size_t)k * sizeof(frame_t)); memcpy(sizes, out_sizes, (size_t)k * sizeof(size_t));
    return out_n;
}
