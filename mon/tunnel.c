/*
 * tunnel.c - monitor for the example CAN tunnel (C19): CAN frames -> real acf-can-talker main()
 * (child process, socket pairs for the CAN and network sockets) -> packets -> independent check
 * of the control-format length -> real acf-can-listener new_packet() -> CAN frames.
 * Oracle: exactly-once, in-order delivery of frames with identical identifier, EFF/RTR bits,
 * BRS/ESI flags (FDF required only when present on input), length and data.
 * VP_SEED, VP_PACKETS (packets per configuration)
 */
#define _GNU_SOURCE
#include <stdio.h>
#include <stdlib.h>
#include <string.h>
#include <unistd.h>
#include <signal.h>
#include <sys/socket.h>
#include <sys/wait.h>
#include <sys/time.h>
#include <linux/can.h>
#include "vp.h"
#include "acf-can/acf-can-common.h"

extern int tun_can_fd, tun_net_fd;
int talker_entry(int argc, char** argv);
void tunl_config(int udp, int fd);
int tunl_packet(int feed_fd, int listen_fd, const uint8_t* pkt, size_t n, frame_t* frames, size_t* sizes, int max);

static uint64_t n_frames, n_packets, n_viol, n_evals, n_nontrivial;
static int samples = 6;

static void viol(const char* cfg, const char* kind, const char* detail, const frame_t* in, const frame_t* out, int fd, const uint8_t* pkt, size_t pn)
{
    n_viol++;
    printf("V|tunnel:%s:%s|{\"detail\":\"%s\"", cfg, kind, detail);
    if (in) printf(",\"in_id\":\"0x%08x\",\"in_len\":%u,\"in_flags\":%u", fd ? in->fd.can_id : in->cc.can_id, fd ? in->fd.len : in->cc.len, fd ? in->fd.flags : 0);
    if (out) printf(",\"out_id\":\"0x%08x\",\"out_len\":%u,\"out_flags\":%u", fd ? out->fd.can_id : out->cc.can_id, fd ? out->fd.len : out->cc.len, fd ? out->fd.flags : 0);
    if (pkt) { printf(",\"packet_prefix\":\""); for (size_t i = 0; i < pn && i < 64; i++) printf("%02x", pkt[i]); printf("\",\"packet_len\":%zu", pn); }
    printf("}\n");
}

static const char* flagclass(uint32_t id, uint8_t flags, int fd)
{
    static char b[64];
    snprintf(b, sizeof b, "%s%s%s%s%s", (id & CAN_EFF_FLAG) ? ((id & CAN_EFF_MASK) <= 0x7ff ? "eff-small-id" : "eff") : "sff", (id & CAN_RTR_FLAG) ? "+rtr" : "",
             fd && (flags & CANFD_BRS) ? "+brs" : "", fd && (flags & CANFD_ESI) ? "+esi" : "", fd && (flags & CANFD_FDF) ? "+fdf" : "");
    return b;
}

static int run_config(vp_rng_t* r, int tscf, int udp, int fd, int count, int packets, int lenmode)
{
    char cfg[64]; snprintf(cfg, sizeof cfg, "%s+%s+%s", tscf ? "tscf" : "ntscf", udp ? "udp" : "raw", fd ? "fd" : "classic");
    int can[2], net[2], lst[2];
    if (socketpair(AF_UNIX, SOCK_SEQPACKET, 0, can) < 0 || socketpair(AF_UNIX, SOCK_DGRAM, 0, net) < 0 || socketpair(AF_UNIX, SOCK_DGRAM, 0, lst) < 0) return 2;
    fflush(stdout);
    pid_t pid = fork();
    if (pid < 0) return 2;
    if (pid == 0) {
        close(can[0]); close(net[0]);
        tun_can_fd = can[1]; tun_net_fd = net[1];
        char cnt[16]; snprintf(cnt, sizeof cnt, "%d", count);
        char* argv[16]; int ac = 0;
        argv[ac++] = "acf-can-talker";
        if (tscf) argv[ac++] = "-t";
        if (udp) { argv[ac++] = "-u"; argv[ac++] = "-n"; argv[ac++] = "127.0.0.1:17220"; } else { argv[ac++] = "-i"; argv[ac++] = "lo"; argv[ac++] = "-d"; argv[ac++] = "aa:bb:cc:dd:ee:ff"; }
        if (fd) argv[ac++] = "--fd";
        argv[ac++] = "--canif"; argv[ac++] = "vcan0"; argv[ac++] = "-c"; argv[ac++] = cnt; argv[ac] = 0;
        talker_entry(ac, argv);
        _exit(3);
    }
    close(can[1]); close(net[1]);
    struct timeval tv = { 60, 0 }; setsockopt(net[0], SOL_SOCKET, SO_RCVTIMEO, &tv, sizeof tv);
    tunl_config(udp, fd);
    int rc = 0;
    uint32_t serial = 0;
    for (int p = 0; p < packets && rc == 0; p++) {
        frame_t in[128]; memset(in, 0, sizeof in);
        int fullpkt = (p % 3 == 2) && lenmode == 0;
        uint32_t prev_id = 0; uint8_t prev_len = 0; int have_prev = 0;                        /* every third packet: all frames of maximum length (packet filled as far as count allows) */
        for (int i = 0; i < count; i++) {
            uint32_t id; uint8_t flags = 0; uint32_t k = (uint32_t)vp_rng_below(r, 8);
            serial++;
            switch (k) {                                   /* identifier / flag classes, varying within a packet */
            case 0: id = serial & 0x7ff; break;                                           /* 11-bit */
            case 1: id = (0x800 + (serial * 2654435761u)) & 0x1fffffff; if (id < 0x800) id |= 0x800; id |= CAN_EFF_FLAG; break;   /* 29-bit */
            case 2: id = (serial & 0x7ff) | CAN_EFF_FLAG; break;                          /* 29-bit flagged id <= 0x7FF */
            case 3: id = (serial & 0x7ff) | CAN_RTR_FLAG; break;
            case 4: id = ((serial * 40503u) & 0x1fffffff) | 0x800 | CAN_EFF_FLAG | CAN_RTR_FLAG; break;
            case 5: { /* the boundary between the identifier ranges, with and without the extended-frame flag */
                      static const uint32_t edge[8] = { 0x7ff, 0x7ff | CAN_EFF_FLAG, 0x7fe | CAN_EFF_FLAG, 0x800 | CAN_EFF_FLAG, 0 | CAN_EFF_FLAG,
                                                        0x7ff | CAN_EFF_FLAG | CAN_RTR_FLAG, 0x800 | CAN_EFF_FLAG | CAN_RTR_FLAG, 0x7ff | CAN_RTR_FLAG };
                      id = edge[(serial >> 3) & 7]; } break;
            case 6: id = 0x1fffffff | CAN_EFF_FLAG; break;
            default: id = (uint32_t)vp_rng_next(r) & 0x7ff; break;
            }
            /* one frame in four repeats identifier (with its EFF/RTR bits) and length of its predecessor with other data and flags:
             * whatever a talker remembers of the previous frame must not leak into this one */
            int rep_prev = have_prev && lenmode == 0 && !fullpkt && vp_rng_below(r, 4) == 0;
            if (rep_prev) id = prev_id;
            if (fd) {
                flags = (uint8_t)(vp_rng_below(r, 4) | ((vp_rng_next(r) & 1) ? CANFD_FDF : 0));   /* BRS=1, ESI=2, FDF=4 */
                if (id & CAN_RTR_FLAG) id &= ~CAN_RTR_FLAG;                                    /* CAN FD has no remote frames */
                in[i].fd.can_id = id; in[i].fd.flags = flags;
                static const uint8_t fdlens[] = { 0, 1, 2, 3, 4, 5, 6, 7, 8, 12, 16, 20, 24, 32, 48, 64 };
                in[i].fd.len = lenmode == 1 ? 0 : fullpkt ? 64 : (vp_rng_next(r) & 1) ? fdlens[vp_rng_below(r, 16)] : (uint8_t)vp_rng_below(r, 65);
                if (rep_prev) in[i].fd.len = prev_len;
                vp_rng_fill(r, in[i].fd.data, in[i].fd.len);
                if (in[i].fd.len >= 4) memcpy(in[i].fd.data, &serial, 4);
                /* a CAN_RAW socket with CAN_RAW_FD_FRAMES delivers classic frames of a mixed bus as 16-byte reads */
                if (in[i].fd.len <= 8 && vp_rng_below(r, 5) == 0) {
                    in[i].fd.flags = 0; memset((uint8_t*)&in[i].fd + 6, 0, 2);
                    if (send(can[0], &in[i].fd, sizeof(struct can_frame), 0) < 0) { rc = 2; break; }
                } else
                if (send(can[0], &in[i].fd, sizeof(struct canfd_frame), 0) < 0) { rc = 2; break; }
            } else {
                /* bytes of struct can_frame a talker has no business with: padding, reserved, and the raw DLC 9..15 a controller in
                 * CAN_CTRLMODE_CC_LEN8_DLC mode reports next to len == 8 */
                { uint8_t junk[3]; vp_rng_fill(r, junk, 3); memcpy((uint8_t*)&in[i].cc + 5, junk, 3); }
                in[i].cc.can_id = id; in[i].cc.len = lenmode == 1 ? 0 : fullpkt ? 8 : (uint8_t)vp_rng_below(r, 9);
                if (rep_prev) in[i].cc.len = prev_len;
                vp_rng_fill(r, in[i].cc.data, in[i].cc.len);
                if (in[i].cc.len >= 4) memcpy(in[i].cc.data, &serial, 4);
                if (send(can[0], &in[i].cc, sizeof(struct can_frame), 0) < 0) { rc = 2; break; }
            }
            prev_id = fd ? in[i].fd.can_id : in[i].cc.can_id; prev_len = fd ? in[i].fd.len : in[i].cc.len; have_prev = 1;
            n_frames++;
        }
        if (rc) break;
        uint8_t pkt[2048];
        ssize_t pn = recv(net[0], pkt, sizeof pkt, 0);
        if (pn < 0) {
            /* nothing came out for the frames handed in: a talker that is still alive swallowed them (violation); one that has
             * exited never got going (argument parsing, sockets: the harness's problem) */
            int st0 = 0;
            if (waitpid(pid, &st0, WNOHANG) == 0) { viol(cfg, "no-packet-for-the-frames-handed-in", "the talker is alive but sent nothing within 60 s", 0, 0, fd, 0, 0); rc = 3; }
            else { printf("ERR|talker exited without producing a packet (%s)\n", cfg); rc = 2; }
            break;
        }
        n_packets++;
        /* independent check of the control-format header: announced bytes == bytes of the ACF messages that follow */
        size_t o = udp ? 4 : 0, cfh = tscf ? 24 : 12;
        size_t announced = tscf ? (size_t)((pkt[o + 20] << 8) | pkt[o + 21]) : (size_t)(((pkt[o + 1] & 0x07) << 8) | pkt[o + 2]);
        size_t walk = 0, acf = o + cfh; int nmsg = 0;
        while (acf + 4 <= (size_t)pn) { size_t l = (size_t)((((pkt[acf] & 1) << 8) | pkt[acf + 1]) * 4); if (l == 0) break; walk += l; acf += l; nmsg++; }
        n_evals++;
        if (announced != walk || announced != (size_t)pn - o - cfh || nmsg != count) {
            char d[160]; snprintf(d, sizeof d, "control-format header announces %zu bytes, ACF messages occupy %zu (%d messages), packet carries %zu", announced, walk, nmsg, (size_t)pn - o - cfh);
            viol(cfg, "announced-length-differs", d, 0, 0, fd, pkt, (size_t)pn);
        }
        /* through the real listener; on raw Ethernet the sending MAC pads payloads below 46 bytes with zeros and AF_PACKET hands
         * the padding to the receiver (every other short packet gets it here) */
        size_t ln = (size_t)pn;
        if (!udp && ln < 46 && (p & 1)) { memset(pkt + ln, 0, 46 - ln); ln = 46; }
        frame_t out[128]; size_t sizes[128];
        int k = tunl_packet(lst[0], lst[1], pkt, ln, out, sizes, 128);
        n_evals++;
        if (k != count) {
            char d[96]; snprintf(d, sizeof d, "%d frames in, %d frames out", count, k);
            viol(cfg, k < count ? "frames-lost" : "frames-duplicated", d, 0, 0, fd, pkt, (size_t)pn);
        }
        for (int i = 0; i < count && i < k; i++) {
            n_evals++;
            uint32_t iid = fd ? in[i].fd.can_id : in[i].cc.can_id, oid = fd ? out[i].fd.can_id : out[i].cc.can_id;
            uint8_t il = fd ? in[i].fd.len : in[i].cc.len, ol = fd ? out[i].fd.len : out[i].cc.len;
            const uint8_t* idat = fd ? in[i].fd.data : in[i].cc.data; const uint8_t* odat = fd ? out[i].fd.data : out[i].cc.data;
            const char* fc = flagclass(iid, fd ? in[i].fd.flags : 0, fd);
            char kind[96];
            if ((iid & CAN_EFF_MASK) != (oid & CAN_EFF_MASK)) { snprintf(kind, sizeof kind, "identifier-differs:%s", fc); viol(cfg, kind, "identifier", &in[i], &out[i], fd, pkt, (size_t)pn); }
            if ((iid & CAN_EFF_FLAG) != (oid & CAN_EFF_FLAG)) { snprintf(kind, sizeof kind, "eff-flag-differs:%s", (iid & CAN_EFF_MASK) <= 0x7ff ? "id<=0x7ff" : "id>0x7ff"); viol(cfg, kind, "extended-frame flag", &in[i], &out[i], fd, pkt, (size_t)pn); }
            if ((iid & CAN_RTR_FLAG) != (oid & CAN_RTR_FLAG)) viol(cfg, "rtr-flag-differs", "remote-frame flag", &in[i], &out[i], fd, pkt, (size_t)pn);
            if (il != ol) viol(cfg, "length-differs", "length", &in[i], &out[i], fd, pkt, (size_t)pn);
            else if (memcmp(idat, odat, il) != 0) viol(cfg, "data-differs", "data", &in[i], &out[i], fd, pkt, (size_t)pn);
            if (fd) {
                uint8_t fi = in[i].fd.flags, fo = out[i].fd.flags;
                if ((fi & CANFD_BRS) != (fo & CANFD_BRS)) viol(cfg, (fi & CANFD_BRS) ? "brs-flag-lost" : "brs-flag-appeared", "BRS", &in[i], &out[i], fd, pkt, (size_t)pn);
                if ((fi & CANFD_ESI) != (fo & CANFD_ESI)) viol(cfg, (fi & CANFD_ESI) ? "esi-flag-lost" : "esi-flag-appeared", "ESI", &in[i], &out[i], fd, pkt, (size_t)pn);
                if ((fi & CANFD_FDF) && !(fo & CANFD_FDF)) viol(cfg, "fdf-flag-lost", "FDF", &in[i], &out[i], fd, pkt, (size_t)pn);
            }
            n_nontrivial++;
            if (samples && i == count - 1 && p == 1) {
                samples--;
                printf("X|{\"config\":\"%s\",\"frames_per_packet\":%d,\"in_id\":\"0x%08x\",\"out_id\":\"0x%08x\",\"len\":%u,\"in_flags\":%u,\"out_flags\":%u,\"announced_bytes\":%zu,\"packet_len\":%zd}\n",
                       cfg, count, iid, oid, il, fd ? in[i].fd.flags : 0, fd ? out[i].fd.flags : 0, announced, pn);
            }
        }
    }
    kill(pid, SIGKILL);
    int st; waitpid(pid, &st, 0);
    close(can[0]); close(net[0]); close(lst[0]); close(lst[1]);
    return rc;
}

int main(void)
{
    uint64_t seed = vp_cfg_u64("SEED", 1);
    int packets = (int)vp_cfg_u64("PACKETS", 40);
    vp_rng_t r; vp_rng_seed(&r, seed, 0x7a11);
    signal(SIGPIPE, SIG_IGN);
    printf("BEGIN|tunnel|seed=%llu\n", (unsigned long long)seed);
    int rc = 0;
    for (int tscf = 0; tscf < 2; tscf++) for (int udp = 0; udp < 2; udp++) for (int fd = 0; fd < 2; fd++) {
        static const int counts_cc[] = { 1, 2, 3, 7, 60 }; static const int counts_fd[] = { 1, 2, 3, 7, 18 };
        int maxfit = (1500 - (udp ? 4 : 0) - (tscf ? 24 : 12)) / (fd ? 80 : 24);        /* maximum-length frames that fit the talker's buffer */
        for (int c = 0; c < 7; c++) {
            int count = c == 5 ? maxfit : c == 6 ? 2 + (int)vp_rng_below(&r, (uint64_t)maxfit - 2) : fd ? counts_fd[c] : counts_cc[c];
            int e = rc ? rc : run_config(&r, tscf, udp, fd, count, packets, 0);
            if (e) rc = e;
        }
        {   /* as many data-less frames as the talker's buffer holds (16-byte messages: up to 93 in one packet) */
            int e = rc ? rc : run_config(&r, tscf, udp, fd, (1500 - (udp ? 4 : 0) - (tscf ? 24 : 12)) / 16, packets < 6 ? packets : 6, 1);
            if (e) rc = e;
        }
        if ((int)(seed % 8) == tscf * 4 + udp * 2 + fd) {   /* one long stream per run: sequence numbers wrap, state accumulates */
            int e = rc ? rc : run_config(&r, tscf, udp, fd, 1 + (int)(seed / 8 % 3), 600, 0);
            if (e) rc = e;
        }
    }
    printf("S|evals|%llu\nS|ops|%llu\nS|tunnel.frames|%llu\nS|tunnel.packets|%llu\nS|nontrivial|%llu\nS|violations|%llu\n", (unsigned long long)n_evals, (unsigned long long)n_frames,
           (unsigned long long)n_frames, (unsigned long long)n_packets, (unsigned long long)n_nontrivial, (unsigned long long)n_viol);
    if (rc == 2) printf("ERR|tunnel harness error %d\n", rc);
    printf("END|tunnel\n");
    return 0;
}
