/* designate.c - prints, for every format and every identifier 0..MAX-1, the header bits that the
 * format's own generic writer changes (observed by execution): "D|FORMAT|id|firstbit|nbits|enum-name". */
#include <stdio.h>
#include <string.h>
#include "vp_bind.h"
int main(void)
{
    for (uint32_t fx = 0; fx < vp_nformats; fx++) {
        const vp_format_t* f = vp_formats[fx];
        for (uint32_t id = 0; id < f->max_id; id++) {
            uint8_t a[80], b[80];
            memset(a, 0, sizeof a); memset(b, 0xff, sizeof b);
            f->gset(a, id, ~0ull); f->gset(b, id, 0);
            int first = -1, n = 0;
            for (int bit = 0; bit < 80 * 8; bit++) {
                int ba = (a[bit >> 3] >> (7 - (bit & 7))) & 1, bb = (b[bit >> 3] >> (7 - (bit & 7))) & 1;
                if (ba || !bb) { if (first < 0) first = bit; n++; }
            }
            const char* nm = "?";
            for (uint32_t k = 0; k < f->nfields; k++) if (f->fields[k].id == id) nm = f->fields[k].enum_name;
            printf("D|%s|%u|%d|%d|%s|%s\n", f->id, id, first, n, nm, f->header);
        }
    }
    return 0;
}
