/*
 * fuzz_field.c - coverage-guided workload for the field/initialiser properties (C01 C02 C04 C05 C12 C17).
 *
 * The generated corpora of fieldmon enumerate value and content *classes*; a defect that needs one particular
 * value or byte pattern (an in-band error marker, a "header already initialised" test that compares against a magic
 * quadlet, a checksum-style coincidence) is outside every class.  libFuzzer's comparison tracing finds such inputs
 * from the comparisons the code under test executes.  The oracle is the same as in fieldmon: the bit-field model of
 * spec/wire.spec (bf_get/bf_set) and a whole-arena comparison after every call.
 *
 * Input: [0] format, [1] placement 0..7, [2] operation set (see OPS), then the header image (format's wire size),
 * then operations of 12 bytes: kind, field, path selector, argument, value[8].
 * VP_FUZZ_OPS (environment): which operation kinds a run may use: "get", "set", "init", "legacy", "all".
 * A violation prints "VP-FUZZ|<key>|<json>" on stderr and aborts (libFuzzer keeps the input as artifact).
 */
#include <stdint.h>
#include <stddef.h>
#include <stdio.h>
#include <stdlib.h>
#include <string.h>
#include "vp.h"
#include "vp_bind.h"
#include <errno.h>

#define ARENA 1024
#define BASE  256
static uint8_t mem[ARENA], shadow[ARENA];
static int allow_get = 1, allow_set = 1, allow_init = 1, allow_legacy = 1, allow_views = 1, allow_bad = 1;

int LLVMFuzzerInitialize(int* argc, char*** argv)
{
    (void)argc; (void)argv;
    const char* o = getenv("VP_FUZZ_OPS");
    if (o && strcmp(o, "all") != 0) {
        allow_get = strstr(o, "get") != 0; allow_set = strstr(o, "set") != 0; allow_init = strstr(o, "init") != 0;
        allow_legacy = strstr(o, "legacy") != 0; allow_views = strstr(o, "views") != 0; allow_bad = strstr(o, "badargs") != 0;
    }
    return 0;
}

static void hexs(char* out, const uint8_t* p, size_t n) { static const char* h = "0123456789abcdef"; for (size_t i = 0; i < n; i++) { out[2 * i] = h[p[i] >> 4]; out[2 * i + 1] = h[p[i] & 15]; } out[2 * n] = 0; }

static void fail(const vp_format_t* f, const char* field, const char* op, const char* what, const uint8_t* before, size_t n, uint64_t v, uint64_t got, uint64_t exp)
{
    char hb[2 * 80 + 1], ha[2 * 80 + 1], hm[2 * 80 + 1];
    hexs(hb, before, n > 80 ? 80 : n); hexs(ha, mem + BASE, n > 72 ? 72 : n); hexs(hm, shadow + BASE, n > 72 ? 72 : n);
    fprintf(stderr, "VP-FUZZ|fuzz:%s:%s:%s:%s|{\"before\":\"%s\",\"value\":\"0x%llx\",\"got\":\"0x%llx\",\"expected\":\"0x%llx\",\"after\":\"%s\",\"model\":\"%s\"}\n",
            f->id, field, op, what, hb, (unsigned long long)v, (unsigned long long)got, (unsigned long long)exp, ha, hm);
    fflush(stderr);
    abort();
}

static void check_arena(const vp_format_t* f, const char* field, const char* op, const uint8_t* before, size_t n, uint64_t v)
{
    if (memcmp(mem, shadow, ARENA) != 0) {
        size_t o = 0; while (mem[o] == shadow[o]) o++;
        fail(f, field, op, (o < BASE || o >= BASE + 8 + n) ? "bytes-outside-the-header-changed" : "header-bytes-differ-from-model", before, n, v, o, 0);
    }
}

int LLVMFuzzerTestOneInput(const uint8_t* d, size_t len)
{
    if (len < 3) return 0;
    const vp_format_t* f = vp_formats[d[0] % vp_nformats];
    size_t place = d[1] & 7, n = f->spec_bytes;
    uint8_t* p = mem + BASE + place;
    uint8_t* s = shadow + BASE + place;
    for (size_t i = 0; i < ARENA; i++) mem[i] = (uint8_t)(i * 131 + 17 + d[2]);
    size_t o = 3;
    for (size_t i = 0; i < n; i++) p[i] = o + i < len ? d[o + i] : 0;
    o += n;
    memcpy(shadow, mem, ARENA);
    uint8_t before[96];
    for (int nops = 0; o + 12 <= len && nops < 24; o += 12, nops++) {
        uint8_t kind = d[o] & 7, arg = d[o + 3];
        const vp_field_t* fld = &f->fields[d[o + 1] % f->nfields];
        int sel = d[o + 2] % 3;                         /* 0 generic, 1 dedicated, 2 legacy */
        uint64_t v; memcpy(&v, d + o + 4, 8);
        memcpy(before, p, n > 96 ? 96 : n);
        { static const int ev[4] = { 0, EINVAL, ERANGE, EINVAL }; errno = ev[(d[o] >> 3) & 3]; }    /* errno left by unrelated earlier calls */
        if (sel == 1 && !fld->dget) sel = 0;
        if (sel == 2 && (!f->lget || fld->id >= f->max_id || !allow_legacy)) sel = 0;
        if ((d[o] & 0x40) && allow_bad) {               /* a call the library must reject: identifier outside the enumeration */
            uint32_t bid = (arg & 1) ? f->max_id + (arg >> 1) : (uint32_t)(v >> 32) | (f->max_id <= 0xff ? 0x100u : 0x10000u);
            if (bid < f->max_id) bid = f->max_id;
            uint64_t r64 = 0x5a5a5a5a5a5a5a5aull; int rc = 0;
            if (kind <= 4) {
                if (sel == 2) { rc = f->lget(p, bid, &r64); if (rc != -EINVAL || r64 != 0x5a5a5a5a5a5a5a5aull) fail(f, "-", "legacy-get", "invalid-identifier-not-rejected", before, n, bid, (uint64_t)(int64_t)rc, 0); }
                else { uint64_t got = f->gget(p, bid); if (got != 0) fail(f, "-", "generic-get", "invalid-identifier-nonzero-result", before, n, bid, got, 0); }
            } else {
                if (sel == 2) { rc = f->lset(p, bid, (arg & 2) ? 0 : v); if (rc != -EINVAL) fail(f, "-", "legacy-set", "invalid-identifier-not-rejected", before, n, bid, (uint64_t)(int64_t)rc, 0); }
                else f->gset(p, bid, v);
            }
            check_arena(f, "-", "rejected-call", before, n, bid);
            continue;
        }
        if (kind == 0 || kind == 1) {                   /* initialisers */
            if (!allow_init || !f->image) continue;
            if (kind == 1 && f->linit && allow_legacy) {
                memcpy(s, f->image, n);
                if (f->linit_argfield) { const vp_field_t* af = &f->fields[f->linit_argfield - 1]; bf_set(s, af->pos, af->width, arg & bf_mask(af->width)); }
                int rc = f->linit(p, arg);
                if (rc != 0) fail(f, "-", "legacy-init", "nonzero-return", before, n, arg, (uint64_t)(int64_t)rc, 0);
                check_arena(f, "-", "legacy-init", before, n, arg);
            } else if (f->init) {
                memcpy(s, f->image, n);
                f->init(p);
                check_arena(f, "-", "init", before, n, 0);
            }
        } else if (kind <= 4) {                         /* get */
            if (!allow_get) continue;
            uint64_t exp = bf_get(s, fld->pos, fld->width), got;
            static const char* const gn[3] = { "generic-get", "dedicated-get", "legacy-get" };
            if (sel == 1) got = fld->dget(p);
            else if (sel == 2) {
                uint64_t r64 = 0x5a5a5a5a5a5a5a5aull; uint32_t r32 = 0x5a5a5a5au; int rc;
                if (f->lvalbytes == 4) { rc = f->lget(p, fld->id, &r32); got = r32; exp = (uint32_t)exp; } else { rc = f->lget(p, fld->id, &r64); got = r64; }
                if (rc != 0) fail(f, fld->name, gn[sel], "nonzero-return-for-valid-arguments", before, n, 0, (uint64_t)(int64_t)rc, 0);
            } else got = f->gget(p, fld->id);
            if (got != exp) fail(f, fld->name, gn[sel], "value-differs-from-model", before, n, 0, got, exp);
            check_arena(f, fld->name, gn[sel], before, n, 0);
        } else {                                        /* set */
            if (!allow_set) continue;
            static const char* const sn[3] = { "generic-set", "dedicated-set", "legacy-set" };
            if (kind == 7) {                            /* value related to the current contents */
                uint64_t old = bf_get(s, fld->pos, fld->width);
                switch (arg & 7) { case 0: v = old; break; case 1: v = old & 0xffffffffull; break; case 2: v = old ^ ((uint64_t)1 << (arg >> 3)); break;
                                   case 3: v = old >> 32; break; case 4: v = old + 1; break; case 5: v = old - 1; break; default: break; }
            }
            uint64_t mv = ((sel == 2 && f->lvalbytes == 4) ? (uint32_t)v : v) & bf_mask(fld->width);
            bf_set(s, fld->pos, fld->width, mv);
            if (sel == 1) fld->dset(p, v);
            else if (sel == 2) { int rc = f->lset(p, fld->id, v); if (rc != 0) fail(f, fld->name, sn[sel], "nonzero-return-for-valid-arguments", before, n, v, (uint64_t)(int64_t)rc, 0); }
            else f->gset(p, fld->id, v);
            check_arena(f, fld->name, sn[sel], before, n, v);
            uint64_t back = f->gget(p, fld->id);
            if (back != (v & bf_mask(fld->width)) && !(sel == 2 && f->lvalbytes == 4))
                fail(f, fld->name, sn[sel], "read-back-differs", before, n, v, back, v & bf_mask(fld->width));
        }
        /* overlapping views: the same bytes read through every format that shares this field */
        if (allow_views && (d[o] & 0x80)) {
            for (uint32_t si = 0; si < vp_nshares; si++) {
                const vp_share_t* sh = &vp_shares[si];
                if (vp_formats[sh->fa] != f || &f->fields[sh->ia] != fld) continue;
                const vp_format_t* B = vp_formats[sh->fb]; const vp_field_t* fb = &B->fields[sh->ib];
                uint64_t a = f->gget(p, fld->id), b = B->gget(p, fb->id);
                if (a != b) fail(f, fld->name, B->id, "shared-view-reads-differ", before, n, 0, b, a);
                check_arena(f, fld->name, "view-read", before, n, 0);
            }
        }
    }
    return 0;
}
