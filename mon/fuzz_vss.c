/*
 * fuzz_vss.c - coverage-guided workload for the VSS codec properties (C07 C08 C09 C10): the case functions and oracles of
 * vssmon.c (reference codec model/vssref.c, arena write monitor, exact-extent blocks under ASan), with the monitor's random
 * generator fed from the fuzz input: path bytes, values, prior message contents and lengths are whatever libFuzzer derives
 * from the comparisons the library executes.  Input: [0] operation (encode, decode, pad, string array), [1..4] case index
 * (selects address mode / datatype / length classes as in vssmon), rest: generator feed.
 * VP_FUZZ_OPS restricts the operations.  A violation line (V|...) ends the process by abort().
 */
#define VP_NO_MAIN 1
#include <stdlib.h>
#include "vssmon.c"

static int f_ops[4] = { 1, 1, 1, 1 };
int LLVMFuzzerInitialize(int* argc, char*** argv)
{
    (void)argc; (void)argv;
    vp_ctx_t* c = &g_ctx;
    const char* o = getenv("VP_FUZZ_OPS");
    if (o && strcmp(o, "all") != 0) { f_ops[0] = strstr(o, "encode") != 0; f_ops[1] = strstr(o, "decode") != 0; f_ops[2] = strstr(o, "pad") != 0; f_ops[3] = strstr(o, "strarr") != 0; }
    vp_ctx_init(c, 1, 0x5500);
    vp_arena_new(&A_big, BIG_SZ); vp_arena_new(&A_small, SMALL_SZ); vp_arena_new(&O, OBJ_SZ);
    vp_arena_fill(&A_big, &c->rng); vp_arena_fill(&A_small, &c->rng); vp_arena_fill(&O, &c->rng);
    g_samples = 0;
    vp_abort_on_violation = 1;
    return 0;
}

int LLVMFuzzerTestOneInput(const uint8_t* d, size_t n)
{
    vp_ctx_t* c = &g_ctx;
    if (n < 6) return 0;
    uint32_t op = d[0] & 3, idx; memcpy(&idx, d + 1, 4);
    if (!f_ops[op]) return 0;
    g_place = d[5] & 7;
    vp_rng_seed(&c->rng, 1, idx);
    c->rng.feed = d + 6; c->rng.feed_n = n - 6;
    switch (op) {
    case 0: do_encode_case(c, idx); break;
    case 1: do_decode_case(c, idx); break;
    case 2: { uint32_t len = 12 + (idx >> 8) % 2033; pad_one(c, len, 4 + (idx & 3)); if ((idx & 0xc0) == 0) pad_exact(c, len); break; }
    default: do_strarr_case(c, idx % 4096); break;
    }
    c->rng.feed = 0; c->rng.feed_n = 0;
    return 0;
}
