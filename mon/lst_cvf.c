/* lst_cvf.c - drives new_packet() of examples/cvf/cvf-listener.c (C18) */
#include "lst_common.h"
static ssize_t lst_recv(int fd, void* buf, size_t n, int flags);
#define main listener_main
#define recv lst_recv
#include "cvf/cvf-listener.c"
#undef main
#undef recv
static ssize_t lst_recv(int fd, void* buf, size_t n, int flags) { return recv(fd, buf, n, flags); }

static const char* lst_name(void) { return "cvf-listener"; }
static int lst_nmodes(void) { return 1; }
static const char* lst_mode_name(int m) { (void)m; return "raw"; }

static size_t build_valid(vp_rng_t* r, uint8_t* b, size_t plen, uint8_t seq)
{
    Avtp_Cvf_t* c = (Avtp_Cvf_t*)b;
    Avtp_Cvf_Init(c);
    Avtp_Cvf_SetTv(c, 1); Avtp_Cvf_SetStreamId(c, STREAM_ID); Avtp_Cvf_SetSequenceNum(c, seq);
    Avtp_Cvf_SetFormatSubtype(c, AVTP_CVF_FORMAT_SUBTYPE_H264); Avtp_Cvf_SetAvtpTimestamp(c, (uint32_t)vp_rng_next(r));
    Avtp_Cvf_SetStreamDataLength(c, (uint16_t)(plen + 4)); Avtp_Cvf_SetM(c, 1);
    Avtp_H264_t* h = (Avtp_H264_t*)(b + 24);
    Avtp_H264_Init(h); Avtp_H264_SetTimestamp(h, (uint32_t)vp_rng_next(r));
    vp_rng_fill(r, b + 28, plen);
    return 28 + plen;
}

/* payload that looks like an H.264 byte stream: runs of zero bytes, Annex-B start codes (00 00 01 / 00 00 00 01) at arbitrary
 * places - also as the very last bytes, with nothing behind them - and a few NAL header bytes */
static void h264ish(vp_rng_t* r, uint8_t* p, size_t plen)
{
    memset(p, 0, plen);
    int k = (int)vp_rng_below(r, 5);
    for (int i = 0; i < k && plen > 4; i++) {
        size_t o = (size_t)vp_rng_below(r, plen - 4);
        p[o + 2] = 1; p[o + 3] = (uint8_t)vp_rng_next(r);
    }
    if (plen >= 1 && (vp_rng_next(r) & 1)) p[plen - 1] = 1;                       /* bare start code ends the data */
    else if (plen >= 2 && (vp_rng_next(r) & 1)) { p[plen - 2] = 1; p[plen - 1] = (uint8_t)(vp_rng_next(r) | 1); }
}

static void lst_make_sequence(vp_rng_t* r, int mode, uint64_t idx, seq_t* s)
{
    (void)mode;
    int nd = 1 + (int)vp_rng_below(r, 3);
    const char* name = "?";
    for (int d = 0; d < nd; d++) {
        uint8_t b[DGRAM_MAX]; memset(b, 0, sizeof b);
        size_t plen = (size_t)vp_rng_below(r, (vp_rng_next(r) & 3) ? 64 : 1401);
        size_t n = build_valid(r, b, plen, (uint8_t)d);
        Avtp_Cvf_t* c = (Avtp_Cvf_t*)b;
        switch (((idx % 15) == 13) ? 13 : (idx + (uint64_t)d * 5) % 15) {
        case 0: name = "valid"; if (idx & 16) h264ish(r, b + 28, n - 28); break;
        case 1: name = "data-length-below-h264-header"; Avtp_Cvf_SetStreamDataLength(c, (uint16_t)vp_rng_below(r, 4)); break;
        case 2: name = "data-length-max"; Avtp_Cvf_SetStreamDataLength(c, 65535); break;
        case 3: name = "data-length-just-too-big"; Avtp_Cvf_SetStreamDataLength(c, (uint16_t)(1405 + vp_rng_below(r, 3))); break;
        case 4: name = "data-length-beyond-datagram"; Avtp_Cvf_SetStreamDataLength(c, (uint16_t)(plen + 4 + 1 + vp_rng_below(r, 1300))); break;
        case 5: name = "truncate-any"; n = (size_t)vp_rng_below(r, n + 1); break;
        case 6: name = "truncate-0-64"; n = (size_t)vp_rng_below(r, 65); break;
        case 7: name = "empty-datagram"; n = 0; break;
        case 8: name = "random-bytes"; n = (size_t)vp_rng_below(r, 1601); vp_rng_fill(r, b, n);   /* up to 100 bytes more than any receive buffer holds */ break;
        case 9: name = "oversize-datagram"; n = 1500; vp_rng_fill(r, b + 28, 1472); Avtp_Cvf_SetStreamDataLength(c, 1476); break;
        case 10: name = "bit-flips"; mutate_bytes(r, b, n < 28 ? n : 28, 1 + (int)vp_rng_below(r, 3)); break;
        case 11: name = "wrong-subtype"; b[0] = (uint8_t)vp_rng_next(r); break;
        case 12: name = "max-payload-h264-like"; n = build_valid(r, b, 1400 - (size_t)((idx >> 4) % 3), 3); h264ish(r, b + 28, n - 28); break;
        case 13: {   /* fragments of one access unit: valid packets that share one presentation time, bare or start-coded NAL units,
                      * whose lengths add up to just below / exactly the size of one queue entry (1400 bytes) */
            name = "same-timestamp-fragments";
            static size_t sum;
            if (d == 0) sum = 0;
            size_t want = d == 0 ? 600 + (size_t)vp_rng_below(r, 200) : (sum < 1400 ? 1400 - sum - (size_t)vp_rng_below(r, 8) : (size_t)vp_rng_below(r, 32));
            if (want > 1400) want = 1400;
            n = build_valid(r, b, want, (uint8_t)d);
            Avtp_Cvf_SetAvtpTimestamp(c, 0x5000u + (uint32_t)idx);
            if (want >= 4) { if (vp_rng_next(r) & 1) { b[28] = 0; b[29] = 0; b[30] = 1; } else b[28] |= 0x40; }
            sum += want;
            if (nd < 2) nd = 2;
            } break;
        default: name = "data-length-random"; Avtp_Cvf_SetStreamDataLength(c, (uint16_t)vp_rng_next(r)); break;
        }
        seq_add(s, b, n);
    }
    snprintf(s->tmpl, sizeof s->tmpl, "%s", name);
}

static int lst_child(int mode, const seq_t* s)
{
    int pair[2]; (void)mode; (void)s;
    if (make_pair(pair) < 0) return EX_HARNESS;
    g_feed_fd = pair[0];
    STAILQ_INIT(&nals);
    int tfd = timerfd_create(CLOCK_REALTIME, 0);
    vp_rng_t r; vp_rng_seed(&r, 99, 1);
    g_sentinel_len = (int)build_valid(&r, g_sentinel, 8, 200);
    memcpy(g_sentinel + 28, "SENTINEL", 8);
    while (feed_next()) {
        new_packet(pair[1], tfd);
        budget_stop();
        if (g_in_sentinel) {
            struct nal_entry* e; struct nal_entry* last = 0;
            STAILQ_FOREACH(e, &nals, entries) last = e;
            if (!last || last->len != 8 || memcmp(last->nal, "SENTINEL", 8) != 0) {
                fprintf(stderr, "VP-SENTINEL: valid CVF packet after the hostile sequence was not queued correctly\n");
                return EX_SENTINEL;
            }
        }
    }
    return EX_OK;
}
#ifndef LST_FUZZ
int main(void) { return lst_driver_main(); }
#else
static void lst_fuzz_one(int mode, const uint8_t* d, size_t n)
{
    static int pair[2] = { -1, -1 }; static int tfd = -1;
    (void)mode;
    if (pair[0] < 0) { if (make_pair(pair) < 0) abort(); STAILQ_INIT(&nals); tfd = timerfd_create(CLOCK_REALTIME, 0); }
    if (send(pair[0], d, n, 0) < 0) abort();
    new_packet(pair[1], tfd);
    while (!STAILQ_EMPTY(&nals)) { struct nal_entry* e = STAILQ_FIRST(&nals); STAILQ_REMOVE_HEAD(&nals, entries); free(e); }
}
#endif
