/*
 * thrmon.c - re-entrancy monitor (C16).
 *
 * T threads run generated scripts of library calls (field get/set/init over all 23 formats via
 * the bindings, ACF-CAN builders, VSS encode/decode, byte-order independent models as oracles),
 * each on its own arenas, plus concurrent read-only calls on a pool of shared PDUs.  Every call
 * takes a ticket from a relaxed atomic counter (no happens-before edge, so nothing is hidden from
 * ThreadSanitizer); the per-episode order of thread ids is the observed interleaving.  Each
 * thread's transcript hash must equal the hash of the same script run alone.
 *
 * With VP_IMAGE=1 (binary linked against the real shared libraries) the writable PT_LOAD
 * segments of libopen1722*.so are hashed before the first library call and after the workloads.
 *
 * VP_THREADS, VP_EPISODES, VP_OPS, VP_SEED, VP_IMAGE
 */
#define _GNU_SOURCE
#include <pthread.h>
#include <link.h>
#include <stdlib.h>
#include <stdio.h>
#include <errno.h>
#include "vp.h"
#include "vp_bind.h"
#include "vssref.h"
#include "avtp/acf/Can.h"
#include "avtp/acf/CanBrief.h"
#include "avtp/acf/custom/Vss.h"

#define ARENA  4096
#define PBASE  1024
#define MAXT   32
#define NSHARED 64
#define ORDER_MAX (1u << 20)

typedef struct {
    vp_ctx_t c;
    uint8_t* mem; uint8_t* shadow;          /* private arena */
    uint64_t script_seed;
    uint64_t nops;
    uint64_t shared_reads;
    int threaded;
    vp_rng_t noise;                         /* scheduling noise must not consume the script's PRNG */
    VssDataStringArray_t lq;                /* result object this worker re-uses for length-only queries, never reset by the worker */
} worker_t;

/* shared read-only pool */
typedef struct { const vp_format_t* f; uint8_t hdr[64]; } shared_pdu_t;
static shared_pdu_t g_shared[NSHARED];
static uint8_t g_shared_vss[NSHARED][64];   /* reference-encoded uint32 scalar, static id */
static uint32_t g_shared_vss_id[NSHARED], g_shared_vss_val[NSHARED];
/* shared read-only VSS messages carrying a packed string array (length-only queries through a re-used result object) */
static uint8_t g_shared_sa[NSHARED][96]; static uint16_t g_shared_sa_len[NSHARED];
/* shared read-only VSS messages carrying arrays of 64..200 bytes of multi-byte elements (a received frame decoded by several threads) */
static uint8_t g_shared_arr[NSHARED][256]; static uint64_t g_shared_arr_el[NSHARED][32]; static uint32_t g_shared_arr_n[NSHARED]; static uint8_t g_shared_arr_code[NSHARED];

static uint32_t g_ticket;
static uint8_t* g_order;
static uint64_t g_noise;

/* errno is an object of the calling thread that is not passed to the library: a library call must leave it as it found it */
#define ERRNO_MARK 4242
static void errno_check(worker_t* w, const char* what);

static void hook(vp_ctx_t* c)
{
    worker_t* w = (worker_t*)c;
    if (!w->threaded) return;
    uint32_t t = __atomic_fetch_add(&g_ticket, 1, __ATOMIC_RELAXED);
    if (t < ORDER_MAX) g_order[t] = (uint8_t)c->tid;
    if (g_noise) { uint64_t r = vp_rng_next(&w->noise); if ((r & 0xff) < g_noise) vp_yield(r >> 8); }
    errno = ERRNO_MARK;       /* whatever the scheduling noise did to it: every library call starts from the mark */
}

static int check_arena(worker_t* w, const char* what, const char* fmt)
{
    vp_ctx_t* c = &w->c;
    c->evals++;
    if (memcmp(w->mem, w->shadow, ARENA) == 0) return 0;
    size_t off = 0; while (off < ARENA && w->mem[off] == w->shadow[off]) off++;
    if (vp_viol(c, "thread", what, fmt, w->threaded ? "threaded" : "sequential", "bytes-differ-from-model", 0)) {
        o_s(c, "{\"tid\":"); o_u(c, (uint64_t)c->tid); o_s(c, ",\"offset\":"); o_u(c, off); o_s(c, ",\"expected\":\""); o_hex(c, w->shadow + off, 8);
        o_s(c, "\",\"actual\":\""); o_hex(c, w->mem + off, 8); o_s(c, "\"}"); o_end(c);
    }
    memcpy(w->shadow, w->mem, ARENA);
    return 1;
}

static void viol_val(worker_t* w, const char* what, const char* fmt, uint64_t exp, uint64_t got)
{
    vp_ctx_t* c = &w->c;
    if (vp_viol(c, "thread", what, fmt, w->threaded ? "threaded" : "sequential", "value-differs-from-model", 0)) {
        o_s(c, "{\"tid\":"); o_u(c, (uint64_t)c->tid); o_s(c, ",\"expected\":\""); o_x(c, exp); o_s(c, "\",\"got\":\""); o_x(c, got); o_s(c, "\"}"); o_end(c);
    }
}

static void errno_check(worker_t* w, const char* what)
{
    vp_ctx_t* c = &w->c;
    c->evals++;
    if (errno != ERRNO_MARK) {
        int e = errno;
        if (vp_viol(c, "thread", "errno", what, "changed-by-a-library-call", 0, 0)) { o_s(c, "{\"errno_after\":"); o_u(c, (uint64_t)e); o_s(c, "}"); o_end(c); }
        errno = ERRNO_MARK;
    }
}

static void run_script(worker_t* w)
{
    vp_ctx_t* c = &w->c;
    vp_rng_t* r = &c->rng;
    vp_rng_seed(r, w->script_seed, 77);
    c->th = 0xcbf29ce484222325ull; c->tn = 0;
    vp_rng_fill(r, w->mem, ARENA); memcpy(w->shadow, w->mem, ARENA);
    uint8_t* p = w->mem + PBASE; uint8_t* s = w->shadow + PBASE;
    const vp_format_t* f = vp_formats[vp_rng_below(r, vp_nformats)];
    for (uint64_t op = 0; op < w->nops; op++) {
        uint64_t k = vp_rng_below(r, 20);
        if (op) errno_check(w, "library-call");
        errno = ERRNO_MARK;
        if (k < 1) { f = vp_formats[vp_rng_below(r, vp_nformats)]; }
        if (k < 9) {                      /* field write */
            const vp_field_t* fld = &f->fields[vp_rng_below(r, f->nfields)];
            uint64_t v = vp_value_class(r, (uint32_t)vp_rng_below(r, VP_NVALCLASS), fld->width);
            bf_set(s, fld->pos, fld->width, v & bf_mask(fld->width));
            vp_call(c);
            if (fld->dset && (v & 1)) fld->dset(p, v); else f->gset(p, fld->id, v);
            vp_tr_bytes(c, p, f->spec_bytes);
            check_arena(w, "field-set", f->id);
        } else if (k < 14) {              /* field read */
            const vp_field_t* fld = &f->fields[vp_rng_below(r, f->nfields)];
            vp_call(c);
            uint64_t got = (fld->dget && (op & 1)) ? fld->dget(p) : f->gget(p, fld->id);
            uint64_t exp = bf_get(s, fld->pos, fld->width);
            c->evals++;
            vp_tr_u64(c, got);
            if (got != exp) viol_val(w, "field-get", f->id, exp, got);
        } else if (k < 15) {              /* init */
            if (f->init && f->image) {
                memcpy(s, f->image, f->spec_bytes);
                vp_call(c);
                f->init(p);
                vp_tr_bytes(c, p, f->spec_bytes);
                check_arena(w, "init", f->id);
            }
        } else if (k < 17) {              /* ACF-CAN builder */
            uint32_t L = (uint32_t)vp_rng_below(r, 65), id = (uint32_t)vp_rng_next(r) & 0x1fffffff;
            int fd = (int)(vp_rng_next(r) & 1), brief = (int)(vp_rng_next(r) & 1);
            uint8_t pl[64]; vp_rng_fill(r, pl, 64);
            uint32_t H = brief ? 8 : 16, pad = (4 - L % 4) % 4;
            memcpy(s + H, pl, L); memset(s + H + L, 0, pad);
            bf_set(s, 7, 9, (H + L + pad) / 4); bf_set(s, 16, 2, pad); bf_set(s, brief ? 35 : 99, 29, id);
            bf_set(s, 20, 1, id > 0x7ff); bf_set(s, 22, 1, (uint64_t)fd);
            vp_call(c);
            if (brief) Avtp_CanBrief_SetPayload((Avtp_CanBrief_t*)p, id, pl, (uint16_t)L, fd ? AVTP_CAN_FD : AVTP_CAN_CLASSIC);
            else Avtp_Can_CreateAcfMessage((Avtp_Can_t*)p, id, pl, (uint16_t)L, fd ? AVTP_CAN_FD : AVTP_CAN_CLASSIC);
            vp_tr_bytes(c, p, H + L + pad);
            check_arena(w, "can-build", brief ? "CANBRIEF" : "CAN");
        } else if (k < 19) {              /* VSS encode + decode (small) */
            static const uint8_t codes[] = { 0x02, 0x04, 0x06, 0x09, 0x0A, 0x82, 0x84, 0x86 };
            const vss_dt_t* dt = vssref_datatype(codes[vp_rng_below(r, 8)]);
            uint32_t mode = (uint32_t)(vp_rng_next(r) & 1), plen = (uint32_t)vp_rng_below(r, 24), sid = (uint32_t)vp_rng_next(r);
            uint8_t path[24]; vp_rng_fill(r, path, 24);
            uint64_t el[6]; uint32_t n = dt->kind == VK_ARRAY ? (uint32_t)vp_rng_below(r, 7) : 1;
            uint64_t em = dt->esize >= 8 ? ~(uint64_t)0 : (((uint64_t)1 << (8 * dt->esize)) - 1);
            for (uint32_t i = 0; i < 6; i++) el[i] = vp_rng_next(r) & em;
            bf_set(s, 19, 2, mode); bf_set(s, 24, 8, dt->code);
            vp_call(c);
            Avtp_Vss_SetAddrMode((Avtp_Vss_t*)p, (Vss_AddrMode_t)mode); Avtp_Vss_SetDatatype((Avtp_Vss_t*)p, (Vss_Datatype_t)dt->code);
            size_t P = vssref_encode_path(s + 12, mode, sid, path, plen);
            size_t D = vssref_encode_value(s + 12 + P, dt, el, n, 0, 0);
            VssPath_t vp; if (mode) vp.vss_static_id_path = sid; else { vp.vss_interop_path.path_length = (uint16_t)plen; vp.vss_interop_path.path = (char*)path; }
            uint64_t host[6]; VssData_t vd; VssDataUint64Array_t arr;
            if (dt->kind == VK_SCALAR) { if (dt->esize == 2) vd.data_uint16 = (uint16_t)el[0]; else if (dt->esize == 4) vd.data_uint32 = (uint32_t)el[0]; else vd.data_uint64 = el[0]; }
            else {
                for (uint32_t i = 0; i < n; i++) { if (dt->esize == 2) ((uint16_t*)host)[i] = (uint16_t)el[i]; else if (dt->esize == 4) ((uint32_t*)host)[i] = (uint32_t)el[i]; else host[i] = el[i]; }
                arr.data_length = (uint16_t)(n * dt->esize); arr.data = host; vd.data_uint64_array = &arr;
            }
            vp_call(c);
            Avtp_Vss_SetVssPath((Avtp_Vss_t*)p, &vp);
            vp_call(c);
            Avtp_Vss_SetVssData((Avtp_Vss_t*)p, &vd);
            vp_tr_bytes(c, p, 12 + P + D);
            check_arena(w, "vss-encode", dt->name);
            /* decode back */
            VssData_t od; uint64_t outb[6]; VssDataUint64Array_t oarr; memset(&od, 0, sizeof od);
            if (dt->kind == VK_ARRAY) { oarr.data_length = 0; oarr.data = outb; od.data_uint64_array = &oarr; }
            vp_call(c);
            Avtp_Vss_GetVssData((Avtp_Vss_t*)p, &od);
            c->evals++;
            if (dt->kind == VK_SCALAR) {
                uint64_t got = dt->esize == 2 ? od.data_uint16 : dt->esize == 4 ? od.data_uint32 : od.data_uint64;
                vp_tr_u64(c, got);
                if (got != el[0]) viol_val(w, "vss-decode", dt->name, el[0], got);
            } else {
                for (uint32_t i = 0; i < n; i++) {
                    uint64_t got = dt->esize == 2 ? ((uint16_t*)outb)[i] : dt->esize == 4 ? ((uint32_t*)outb)[i] : outb[i];
                    vp_tr_u64(c, got);
                    if (got != el[i]) { viol_val(w, "vss-decode", dt->name, el[i], got); break; }
                }
            }
        } else {                          /* concurrent read-only access to the shared pool */
            uint32_t i = (uint32_t)vp_rng_below(r, NSHARED);
            const vp_format_t* sf = g_shared[i].f;
            const vp_field_t* fld = &sf->fields[vp_rng_below(r, sf->nfields)];
            vp_call(c);
            uint64_t got = (fld->dget && (op & 1)) ? fld->dget(g_shared[i].hdr) : sf->gget(g_shared[i].hdr, fld->id);
            uint64_t exp = bf_get(g_shared[i].hdr, fld->pos, fld->width);
            c->evals++;
            vp_tr_u64(c, got);
            if (got != exp) viol_val(w, "shared-read", sf->id, exp, got);
            VssData_t od; VssPath_t op2;
            vp_call(c);
            Avtp_Vss_GetVssData((Avtp_Vss_t*)g_shared_vss[i], &od);
            Avtp_Vss_GetVssPath((Avtp_Vss_t*)g_shared_vss[i], &op2);
            c->evals++;
            vp_tr_u64(c, od.data_uint32);
            if (od.data_uint32 != g_shared_vss_val[i] || op2.vss_static_id_path != g_shared_vss_id[i]) viol_val(w, "shared-vss-decode", "uint32", g_shared_vss_val[i], od.data_uint32);
            w->shared_reads += 2;
            {   /* array message of the pool: decode into a private buffer */
                const vss_dt_t* adt = vssref_datatype(g_shared_arr_code[i]);
                VssData_t ad; uint64_t ab[32]; VssDataUint64Array_t aarr; memset(&ad, 0, sizeof ad);
                aarr.data_length = 0; aarr.data = ab; ad.data_uint64_array = &aarr;
                vp_call(c);
                Avtp_Vss_GetVssData((Avtp_Vss_t*)g_shared_arr[i], &ad);
                c->evals++;
                for (uint32_t e = 0; e < g_shared_arr_n[i]; e++) {
                    uint64_t got = adt->esize == 2 ? ((uint16_t*)ab)[e] : adt->esize == 4 ? ((uint32_t*)ab)[e] : ab[e];
                    if (e < 2) vp_tr_u64(c, got);
                    if (got != g_shared_arr_el[i][e]) { viol_val(w, "shared-vss-array-decode", adt->name, g_shared_arr_el[i][e], got); break; }
                }
                w->shared_reads++;
            }
            {   /* length-only query of a string-array message of the pool through the worker's re-used result object: the
                 * library reports the length and leaves the (absent) destination alone - a pointer it left there would make
                 * the next query, on another shared message, write the first one */
                VssData_t sd; sd.data_string_array = &w->lq;
                vp_call(c);
                Avtp_Vss_GetVssData((Avtp_Vss_t*)g_shared_sa[i], &sd);
                c->evals++;
                vp_tr_u64(c, w->lq.data_length);
                if (w->lq.data_length != g_shared_sa_len[i] || w->lq.data != 0) {
                    viol_val(w, "shared-vss-string-array-length-query", w->lq.data != 0 ? "destination-pointer-set-by-the-library" : "length", g_shared_sa_len[i], w->lq.data_length);
                    w->lq.data = 0;
                }
                w->shared_reads++;
            }
        }
    }
}

static void* thread_main(void* arg) { run_script((worker_t*)arg); return 0; }

/* ------------------------------------------------------------------ writable image of the shared libraries */
typedef struct { uint64_t hash; uint64_t bytes; int nseg; char names[256]; } image_t;

static int phdr_cb(struct dl_phdr_info* info, size_t size, void* data)
{
    image_t* im = (image_t*)data;
    (void)size;
    if (!info->dlpi_name || !strstr(info->dlpi_name, "libopen1722")) return 0;
    uintptr_t relro_lo = 0, relro_hi = 0;
    for (int i = 0; i < info->dlpi_phnum; i++) if (info->dlpi_phdr[i].p_type == PT_GNU_RELRO) {
        relro_lo = info->dlpi_addr + info->dlpi_phdr[i].p_vaddr; relro_hi = relro_lo + info->dlpi_phdr[i].p_memsz;
    }
    for (int i = 0; i < info->dlpi_phnum; i++) {
        const ElfW(Phdr)* ph = &info->dlpi_phdr[i];
        if (ph->p_type != PT_LOAD || !(ph->p_flags & PF_W)) continue;
        uintptr_t lo = info->dlpi_addr + ph->p_vaddr, hi = lo + ph->p_memsz;
        for (uintptr_t a = lo; a < hi; a++) {
            if (a >= relro_lo && a < relro_hi) continue;
            im->hash = (im->hash ^ *(volatile uint8_t*)a) * 0x100000001b3ull;
            im->bytes++;
        }
        im->nseg++;
    }
    size_t l = strlen(im->names);
    const char* b = strrchr(info->dlpi_name, '/'); b = b ? b + 1 : info->dlpi_name;
    if (l + strlen(b) + 2 < sizeof im->names) { strcat(im->names, b); strcat(im->names, " "); }
    return 0;
}

static void snapshot(image_t* im) { memset(im, 0, sizeof *im); im->hash = 0xcbf29ce484222325ull; dl_iterate_phdr(phdr_cb, im); }

static worker_t g_w[MAXT], g_ref[MAXT];
static uint64_t* g_iset;
#define ISET (1u << 18)
static int iset_add(uint64_t h) { if (!h) h = 1; uint32_t i = (uint32_t)(h % ISET); for (int p = 0; p < 32; p++) { if (g_iset[i] == h) return 0; if (!g_iset[i]) { g_iset[i] = h; return 1; } i = (i + 1) % ISET; } return 0; }

int main(void)
{
    static vp_ctx_t mainctx;
    vp_ctx_t* c = &mainctx;
    uint64_t seed = vp_cfg_u64("SEED", 1), episodes = vp_cfg_u64("EPISODES", 50), nops = vp_cfg_u64("OPS", 2000);
    uint32_t T = (uint32_t)vp_cfg_u64("THREADS", 8);
    int image = (int)vp_cfg_u64("IMAGE", 0);
    g_noise = vp_cfg_u64("NOISE", 6);
    if (T > MAXT) T = MAXT;
    vp_ctx_init(c, seed, 0x7177);
    image_t before, after;
    if (image) snapshot(&before);           /* before the first library call */
    o_s(c, "BEGIN|thrmon|threads="); o_u(c, T); o_s(c, "|episodes="); o_u(c, episodes); o_end(c);
    g_order = vp_map(ORDER_MAX);
    g_iset = (uint64_t*)vp_map(ISET * 8);
    /* shared pool, built before any thread exists */
    for (uint32_t i = 0; i < NSHARED; i++) {
        g_shared[i].f = vp_formats[i % vp_nformats];
        vp_rng_fill(&c->rng, g_shared[i].hdr, 64);
        memset(g_shared_vss[i], 0, 64);
        g_shared_vss_id[i] = (uint32_t)vp_rng_next(&c->rng); g_shared_vss_val[i] = (uint32_t)vp_rng_next(&c->rng);
        bf_set(g_shared_vss[i], 0, 7, 0x42); bf_set(g_shared_vss[i], 19, 2, 1); bf_set(g_shared_vss[i], 24, 8, 0x04);
        vssref_put_be(g_shared_vss[i] + 12, 4, g_shared_vss_id[i]); vssref_put_be(g_shared_vss[i] + 16, 4, g_shared_vss_val[i]);
        {
            static const uint8_t acodes[] = { 0x82, 0x84, 0x86, 0x83, 0x85, 0x87, 0x89, 0x8A };
            const vss_dt_t* adt = vssref_datatype(acodes[i % 8]);
            uint32_t n = (64 + 8 * (i % 17)) / adt->esize; if (n > 32) n = 32; if (n * adt->esize < 64) n = 64 / adt->esize;
            uint64_t em = adt->esize >= 8 ? ~(uint64_t)0 : (((uint64_t)1 << (8 * adt->esize)) - 1);
            for (uint32_t e = 0; e < n; e++) g_shared_arr_el[i][e] = vp_rng_next(&c->rng) & em;
            g_shared_arr_n[i] = n; g_shared_arr_code[i] = adt->code;
            memset(g_shared_arr[i], 0, 256);
            bf_set(g_shared_arr[i], 0, 7, 0x42); bf_set(g_shared_arr[i], 19, 2, 1); bf_set(g_shared_arr[i], 24, 8, adt->code);
            vssref_put_be(g_shared_arr[i] + 12, 4, g_shared_vss_id[i]);
            vssref_encode_value(g_shared_arr[i] + 16, adt, g_shared_arr_el[i], n, 0, 0);
        }
        {   /* string array: 2..5 strings of 1..12 bytes, static id */
            uint8_t* sa = g_shared_sa[i]; memset(sa, 0, 96);
            bf_set(sa, 0, 7, 0x42); bf_set(sa, 19, 2, 1); bf_set(sa, 24, 8, 0x8B);
            vssref_put_be(sa + 12, 4, g_shared_vss_id[i]);
            size_t o = 18; uint32_t ns = 2 + i % 4;
            for (uint32_t k = 0; k < ns; k++) { uint32_t l = 1 + (uint32_t)vp_rng_below(&c->rng, 12); vssref_put_be(sa + o, 2, l); vp_rng_fill(&c->rng, sa + o + 2, l); o += 2 + l; }
            g_shared_sa_len[i] = (uint16_t)(o - 18); vssref_put_be(sa + 16, 2, g_shared_sa_len[i]);
        }
    }
    for (uint32_t t = 0; t < MAXT; t++) {
        g_w[t].mem = vp_map(ARENA); g_w[t].shadow = vp_map(ARENA); g_ref[t].mem = vp_map(ARENA); g_ref[t].shadow = vp_map(ARENA);
    }
    uint64_t distinct = 0, total_ops = 0, shared_reads = 0, evals = 0, mismatch = 0;
    for (uint64_t ep = 0; ep < episodes; ep++) {
        /* sequential reference */
        for (uint32_t t = 0; t < T; t++) {
            worker_t* w = &g_ref[t];
            uint8_t* m = w->mem; uint8_t* s = w->shadow;
            vp_ctx_init(&w->c, seed, 1000 + t); w->mem = m; w->shadow = s; w->lq.data = 0; w->lq.data_length = 0;
            w->c.tid = (int)t; w->c.hook = hook; w->threaded = 0; w->nops = nops; w->shared_reads = 0;
            w->script_seed = seed * 1000003 + ep * 131 + t;
            run_script(w);
        }
        /* threaded */
        __atomic_store_n(&g_ticket, 0, __ATOMIC_RELAXED);
        pthread_t th[MAXT];
        for (uint32_t t = 0; t < T; t++) {
            worker_t* w = &g_w[t];
            uint8_t* m = w->mem; uint8_t* s = w->shadow;
            vp_ctx_init(&w->c, seed, 1000 + t); w->mem = m; w->shadow = s; w->lq.data = 0; w->lq.data_length = 0;
            w->c.tid = (int)t; w->c.hook = hook; w->threaded = 1; w->nops = nops; w->shared_reads = 0;
            vp_rng_seed(&w->noise, seed + ep, 5000 + t);
            w->script_seed = seed * 1000003 + ep * 131 + t;
        }
        for (uint32_t t = 0; t < T; t++) pthread_create(&th[t], 0, thread_main, &g_w[t]);
        for (uint32_t t = 0; t < T; t++) pthread_join(th[t], 0);
        uint32_t tickets = __atomic_load_n(&g_ticket, __ATOMIC_RELAXED);
        if (tickets > ORDER_MAX) tickets = ORDER_MAX;
        uint64_t ih = 0xcbf29ce484222325ull; uint64_t switches = 0;
        for (uint32_t i = 0; i < tickets; i++) { ih = (ih ^ g_order[i]) * 0x100000001b3ull; if (i && g_order[i] != g_order[i - 1]) switches++; }
        if (iset_add(ih)) distinct++;
        for (uint32_t t = 0; t < T; t++) {
            evals += g_w[t].c.evals + 1; total_ops += g_w[t].c.ops; shared_reads += g_w[t].shared_reads;
            c->nviol += g_w[t].c.nviol + g_ref[t].c.nviol;
            if (g_w[t].c.th != g_ref[t].c.th || g_w[t].c.tn != g_ref[t].c.tn) {
                mismatch++;
                if (vp_viol(c, "thread", "transcript", "threaded-differs-from-sequential", 0, 0, 0)) {
                    o_s(c, "{\"episode\":"); o_u(c, ep); o_s(c, ",\"tid\":"); o_u(c, t); o_s(c, ",\"sequential\":\""); o_x(c, g_ref[t].c.th); o_s(c, "\",\"threaded\":\""); o_x(c, g_w[t].c.th); o_s(c, "\"}"); o_end(c);
                }
            }
        }
        if (ep < 3) {
            c->outn = 0; o_s(c, "X|{\"episode\":"); o_u(c, ep); o_s(c, ",\"threads\":"); o_u(c, T); o_s(c, ",\"tickets\":"); o_u(c, tickets); o_s(c, ",\"thread_switches_in_ticket_order\":"); o_u(c, switches);
            o_s(c, ",\"interleaving_hash\":\""); o_x(c, ih); o_s(c, "\",\"first_tickets\":\""); o_hex(c, g_order, tickets > 24 ? 24 : tickets); o_s(c, "\",\"thread0_transcript\":\""); o_x(c, g_w[0].c.th); o_s(c, "\"}"); o_end(c);
        }
    }
    c->evals = evals; c->ops = total_ops;
    vp_stat(c, "thr.episodes", episodes); vp_stat(c, "thr.threads", T); vp_stat(c, "thr.distinct_interleavings", distinct);
    vp_stat(c, "thr.shared_reads", shared_reads); vp_stat(c, "thr.transcript_mismatches", mismatch);
    if (image) {
        snapshot(&after);
        c->evals++;
        vp_stat(c, "img.writable_bytes", after.bytes); vp_stat(c, "img.segments", (uint64_t)after.nseg);
        c->outn = 0; o_s(c, "X|{\"writable_image\":\""); o_s(c, after.names); o_s(c, "\",\"bytes\":"); o_u(c, after.bytes); o_s(c, ",\"hash_before\":\""); o_x(c, before.hash); o_s(c, "\",\"hash_after\":\""); o_x(c, after.hash); o_s(c, "\"}"); o_end(c);
        if (after.nseg == 0) { o_s(c, "ERR|no writable segment of libopen1722*.so found (not linked against the shared libraries?)"); o_end(c); }
        if (before.hash != after.hash || before.bytes != after.bytes) {
            if (vp_viol(c, "image", "writable-image-of-library-changed", 0, 0, 0, 0)) { o_s(c, "{\"before\":\""); o_x(c, before.hash); o_s(c, "\",\"after\":\""); o_x(c, after.hash); o_s(c, "\",\"bytes\":"); o_u(c, after.bytes); o_s(c, "}"); o_end(c); }
        }
    }
    vp_finish(c, "thrmon");
    return 0;
}
