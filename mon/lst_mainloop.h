/* lst_mainloop.h - support for listeners whose parsing lives in main(): the wrapped recv() feeds
 * the next scripted datagram, and when the script (plus sentinel) is exhausted it checks the
 * captured stdout for the sentinel's expected line and exits. */
static int g_out_rd = -1;
static const char* g_expect;
static const char* g_expect_token = "";     /* payload token that any rendering of the valid datagram contains */
static int g_listen_fd = -1;

static void finish_mainloop(void)
{
    budget_stop();
    fflush(stdout);
    static char buf[1 << 17]; size_t n = 0; ssize_t k;
    int fl = fcntl(g_out_rd, F_GETFL); fcntl(g_out_rd, F_SETFL, fl | O_NONBLOCK);
    while ((k = read(g_out_rd, buf + n, sizeof buf - 1 - n)) > 0) n += (size_t)k;
    buf[n] = 0;
    if (g_learn_fd >= 0) {      /* reference run: hand the text this listener prints for the valid datagram to the driver */
        int tok = 0; size_t tl = strlen(g_expect_token);
        for (size_t i = 0; i + tl <= n; i++) if (memcmp(buf + i, g_expect_token, tl) == 0) tok = 1;
        if (!tok) _exit(EX_SENTINEL);
        if (write(g_learn_fd, buf, n > 2000 ? 2000 : n)) {}
        _exit(EX_OK);
    }
    if (g_cur_mode < 8 && g_ref_out[g_cur_mode][g_cur_variant][0]) g_expect = g_ref_out[g_cur_mode][g_cur_variant];
    /* the sentinel's text must appear in what was printed after the hostile sequence */
    size_t el = strlen(g_expect);
    int ok = 0;
    for (size_t i = 0; i + el <= n; i++) if (memcmp(buf + i, g_expect, el) == 0) ok = 1;
    if (!ok) {
        fprintf(stderr, "VP-SENTINEL: after the hostile sequence the valid packet did not produce \"%s\" (captured %zu bytes)\n", g_expect, n);
        _exit(EX_SENTINEL);
    }
    _exit(EX_OK);
}

#ifdef LST_FUZZ
#include <setjmp.h>
static jmp_buf fuzz_jb; static int fuzz_phase; static const uint8_t* fuzz_d; static size_t fuzz_n;
#endif
/* stack position of the caller: address of a local in a function that is never inlined */
static __attribute__((noinline)) uintptr_t vp_sp_probe(void) { volatile char c = 0; (void)c; return (uintptr_t)&c; }

static ssize_t lst_recv(int fd, void* buf, size_t n, int flags)
{
#ifdef LST_FUZZ
    if (fuzz_phase++ == 0) { if (send(g_feed_fd, fuzz_d, fuzz_n, 0) < 0) abort(); return recv(fd, buf, n, flags); }
    longjmp(fuzz_jb, 1);
#endif
    budget_stop();
    {   /* the receive loop lives in main(): its stack pointer at this call must not drift from datagram to datagram
         * (an allocation per iteration that is never released ends in stack exhaustion on a long stream) */
        static uintptr_t sp_base; uintptr_t sp = vp_sp_probe();
        if (g_fed == 4) sp_base = sp;
        if (g_fed > 4 && sp_base > sp && sp_base - sp > 16384) {
            fprintf(stderr, "VP-STACK: the listener's stack grew by %lu bytes over %ld datagrams (unreleased per-datagram allocation)\n", (unsigned long)(sp_base - sp), g_fed - 4);
            _exit(EX_STACK);
        }
    }
    if (g_seq && g_seq->repeat && !g_in_sentinel) {    /* soak: keep the captured output from filling the pipe; only the sentinel's line is judged */
        fflush(stdout);
        static char junk[65536]; int fl = fcntl(g_out_rd, F_GETFL); fcntl(g_out_rd, F_SETFL, fl | O_NONBLOCK);
        while (read(g_out_rd, junk, sizeof junk) > 0) {}
    }
    if (!feed_next()) finish_mainloop();
    return recv(fd, buf, n, flags);
}

static int mainloop_setup(void)
{
    int pair[2], op[2];
    if (make_pair(pair) < 0) return -1;
    g_feed_fd = pair[0]; g_listen_fd = pair[1];
    if (pipe(op) < 0) return -1;
    fcntl(op[1], F_SETPIPE_SZ, 1 << 20);
    int fl = fcntl(op[1], F_GETFL); fcntl(op[1], F_SETFL, fl | O_NONBLOCK);
    fflush(stdout);
    dup2(op[1], 1); close(op[1]);
    g_out_rd = op[0];
    return 0;
}
int create_listener_socket_udp(uint32_t p) { (void)p; return g_listen_fd; }
int create_listener_socket(char* i, uint8_t m[], int p) { (void)i; (void)m; (void)p; return g_listen_fd; }
