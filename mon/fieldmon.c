/*
 * fieldmon.c - monitor for the field accessors, initialisers and legacy wrappers of all 23
 * header formats.  Every library call is made on a PDU that lives inside a patterned arena
 * with a shadow copy maintained by the reference bit-field model; after every call the whole
 * arena is compared with the shadow (write monitor) and returned values are compared with
 * the model (read oracle).
 *
 * Modes (VP_MODE): read write raw extent init history badargs legacy views
 * Other configuration (environment, VP_ prefix): FORMATS (comma list or "all"), SEED, REPS,
 * PLACE (byte offset 0..15 of the PDU relative to a 16-byte boundary), EXTENT (heap|guard),
 * DUMP (1: print the transcript as text), EPISODES.
 */
#define VP_PROGRESS 1
#include "vp.h"
#include "vp_bind.h"
#include "avtp/Utils.h"
#include <errno.h>

#define ARENA_SZ   8192
#define NDERIVED   16
#define NEGVALS    40   /* field contents / values -1 .. -NEGVALS (negated errno values) */
#define PDU_BASE   2048
#define MAXHDR     64
#define EINVAL_RC  (-22)

typedef struct {
    vp_ctx_t*  c;
    vp_arena_t a;
    size_t     off;          /* offset of the PDU inside the arena */
    const vp_format_t* f;
    uint8_t    before[MAXHDR];
} fm_t;

static uint32_t g_place;
static uint64_t g_reps;
static uint32_t g_samples;   /* remaining X| sample lines for the current format */

static int sample(vp_ctx_t* c) { if (!g_samples) return 0; g_samples--; c->outn = 0; o_s(c, "X|"); return 1; }

static void fm_new(fm_t* m, vp_ctx_t* c)
{
    m->c = c; m->f = 0;
    vp_arena_new(&m->a, ARENA_SZ);
    m->off = PDU_BASE + g_place;
    vp_arena_fill(&m->a, &c->rng);
}

static inline uint8_t* PDU(fm_t* m) { return m->a.mem + m->off; }
static inline uint8_t* SH(fm_t* m)  { return m->a.shadow + m->off; }

/* set header bytes in both worlds */
static void fm_load(fm_t* m, const uint8_t* hdr, size_t n)
{
    /* fresh random neighbourhood for every case: a result that depends on bytes next to the header shows up */
    vp_rng_fill(&m->c->rng, PDU(m) - 24, 24); memcpy(SH(m) - 24, PDU(m) - 24, 24);
    vp_rng_fill(&m->c->rng, PDU(m) + n, 24); memcpy(SH(m) + n, PDU(m) + n, 24);
    memcpy(PDU(m), hdr, n); memcpy(SH(m), hdr, n);
    memcpy(m->before, hdr, n > MAXHDR ? MAXHDR : n);
}

static const char* region_name(fm_t* m, size_t off, size_t hdr)
{
    if (off < m->off) return "stray-write-before";
    if (off < m->off + hdr) return "header-bytes";
    return "stray-write-after";
}

/* compare arena with shadow; report; returns 1 on violation */
static int fm_check(fm_t* m, const char* mode, const char* field, const char* path, size_t hdr, uint64_t value, int have_value)
{
    size_t off, cnt, last;
    m->c->evals++;
    if (!vp_arena_diff(m->c, &m->a, &off, &cnt, &last)) return 0;
    const char* reg = region_name(m, off, hdr);
    if (off >= m->off && off < m->off + hdr && last >= m->off + hdr) reg = "header-bytes+stray-write-after";
    if (vp_viol(m->c, mode, m->f ? m->f->id : "-", field, path, reg, 0)) {
        vp_ctx_t* c = m->c;
        o_s(c, "{\"first_off\":"); if (off >= m->off) o_u(c, off - m->off); else { o_s(c, "-"); o_u(c, m->off - off); }
        o_s(c, ",\"last_off\":"); if (last >= m->off) o_u(c, last - m->off); else { o_s(c, "-"); o_u(c, m->off - last); }
        o_s(c, ",\"nbytes\":"); o_u(c, cnt);
        o_s(c, ",\"before\":\""); o_hex(c, m->before, hdr > MAXHDR ? MAXHDR : hdr);
        o_s(c, "\",\"expected\":\""); o_hex(c, SH(m), hdr);
        o_s(c, "\",\"actual\":\""); o_hex(c, PDU(m), hdr);
        o_s(c, "\"");
        if (have_value) { o_s(c, ",\"value\":\""); o_x(c, value); o_s(c, "\""); }
        o_s(c, ",\"place\":"); o_u(c, g_place);
        o_s(c, "}"); o_end(c);
    }
    vp_arena_resync(&m->a);
    return 1;
}

static void viol_value(fm_t* m, const char* mode, const char* field, const char* path, const char* kind,
                       size_t hdr, uint64_t expect, uint64_t got, uint64_t value, int have_value)
{
    if (vp_viol(m->c, mode, m->f ? m->f->id : "-", field, path, kind, 0)) {
        vp_ctx_t* c = m->c;
        o_s(c, "{\"buffer\":\""); o_hex(c, PDU(m), hdr > MAXHDR ? MAXHDR : hdr);
        o_s(c, "\",\"expected\":\""); o_x(c, expect); o_s(c, "\",\"got\":\""); o_x(c, got); o_s(c, "\"");
        if (have_value) { o_s(c, ",\"value\":\""); o_x(c, value); o_s(c, "\""); }
        o_s(c, ",\"place\":"); o_u(c, g_place);
        o_s(c, "}"); o_end(c);
    }
}

/* ------------------------------------------------------------------ buffer classes */
enum { BC_ZERO, BC_ONES, BC_55, BC_AA, BC_SAT, BC_CLR, BC_RANDOM, BC_NFIXED = BC_RANDOM };
static const char* const bc_names[] = { "zero", "ones", "cb55", "cbaa", "field-saturated", "field-cleared", "random" };

/* the format whose buffers are being made (set by the mode drivers): a quarter of the "random" buffers are headers as a talker
 * would have built them - the canonical image with every other field at a small plausible value (1, 2, 3, 4, 6, 8, 16, 24, ...).
 * Behaviour that is gated on "the header describes a consistent stream of kind X" (several selector fields at valid values at
 * once) is practically never reached by random bytes */
static const vp_format_t* g_bcfmt;
static void talker_like(vp_rng_t* r, const vp_format_t* f, uint8_t* hdr, size_t n)
{
    static const uint16_t small[16] = { 0, 1, 2, 3, 4, 5, 6, 8, 12, 16, 24, 32, 48, 192, 1000, 1 };
    size_t k = n < f->spec_bytes ? n : f->spec_bytes;
    vp_rng_fill(r, hdr, n);
    memcpy(hdr, f->image, k);
    for (uint32_t i = 0; i < f->nfields; i++) {
        const vp_field_t* fl = &f->fields[i];
        if (fl->width == 0 || (size_t)(fl->pos + fl->width + 7) / 8 > k) continue;
        uint64_t x = vp_rng_next(r);
        if (bf_get(hdr, fl->pos, fl->width) != 0 && (x & 3)) continue;          /* what the initialiser stamps mostly stays */
        bf_set(hdr, fl->pos, fl->width, fl->width > 32 ? x : (small[(x >> 8) & 15] & bf_mask(fl->width)));
    }
}

static void make_buffer(vp_rng_t* r, uint32_t cls, uint8_t* hdr, size_t n, const vp_field_t* fld)
{
    if (cls >= BC_RANDOM && g_bcfmt && g_bcfmt->image && (vp_rng_next(r) & 3) == 0) { talker_like(r, g_bcfmt, hdr, n); return; }
    switch (cls) {
    case BC_ZERO: memset(hdr, 0, n); break;
    case BC_ONES: memset(hdr, 0xff, n); break;
    case BC_55: memset(hdr, 0x55, n); break;
    case BC_AA: memset(hdr, 0xaa, n); break;
    case BC_SAT: vp_rng_fill(r, hdr, n); if (fld) bf_set(hdr, fld->pos, fld->width, ~(uint64_t)0); break;
    case BC_CLR: vp_rng_fill(r, hdr, n); if (fld) bf_set(hdr, fld->pos, fld->width, 0); break;
    default: vp_rng_fill(r, hdr, n); break;
    }
}

/* paths */
enum { P_GENERIC, P_DEDICATED, P_LEGACY };
static const char* const path_names[] = { "generic", "dedicated", "legacy" };

/* errno as unrelated earlier calls of the program may have left it (a counter, not the generator: same at every placement) */
static void errno_noise(void) { static unsigned k; static const int ev[4] = { EINVAL, 0, ERANGE, EINVAL }; errno = ev[k++ & 3]; }

static uint64_t do_get(fm_t* m, const vp_field_t* fld, int path)
{
    errno_noise();
    vp_call(m->c);
    if (path == P_DEDICATED) return fld->dget(PDU(m));
    if (path == P_LEGACY) {
        uint64_t v = 0; uint32_t v32 = 0;
        if (m->f->lvalbytes == 4) { m->f->lget(PDU(m), fld->id, &v32); return v32; }
        m->f->lget(PDU(m), fld->id, &v); return v;
    }
    return m->f->gget(PDU(m), fld->id);
}

static void do_set(fm_t* m, const vp_field_t* fld, int path, uint64_t v)
{
    errno_noise();
    vp_call(m->c);
    if (path == P_DEDICATED) fld->dset(PDU(m), v);
    else if (path == P_LEGACY) m->f->lset(PDU(m), fld->id, v);
    else m->f->gset(PDU(m), fld->id, v);
}

static size_t hdr_len(const vp_format_t* f) { return f->spec_bytes; }

/* ================================================================== headers at a 4 GiB address boundary (C01 C02 C04)
 * Address arithmetic done in 32 bits (a cursor, an alignment mask, a pointer difference) goes wrong only where the
 * address crosses or touches a multiple of 2^32: the header ends exactly there, straddles it, starts there, or lies in the
 * first page above it. */
static uint8_t* boundary_pages(void)
{
    static uint8_t* pg; static int tried;
    if (!tried) {
        tried = 1;
        static const uint64_t ks[] = { 0x7100, 0x7210, 0x6f00, 0x7345, 0x1234 };
        for (unsigned i = 0; i < 5 && !pg; i++) pg = vp_map_at((ks[i] << 32) - 8192, 16384);
    }
    return pg;          /* the boundary is at pg + 8192 */
}

static void boundary_phase(fm_t* m, const char* mode)
{
    const vp_format_t* f = m->f; vp_ctx_t* c = m->c;
    size_t n = hdr_len(f);
    uint8_t* pg = boundary_pages();
    if (!pg) { vp_stat(c, "boundary.unavailable", 1); return; }
    uint8_t* B = pg + 8192;
    uint8_t* places[6] = { B - n, B - n / 2 - 1, B - 3, B, B + 14, B + 4096 - n };
    static uint8_t model[16384];
    for (int pi = 0; pi < 6; pi++) {
        uint8_t* p = places[pi]; size_t po = (size_t)(p - pg);
        for (int rep = 0; rep < 2; rep++) {
            vp_rng_fill(&c->rng, pg, 16384);
            if (rep) memset(p, 0xff, n);
            memcpy(model, pg, 16384);
            if (mode[0] == 'i') {
                if (!f->image) continue;
                for (int leg = 0; leg < 2; leg++) {
                    if (leg ? !f->linit : !f->init) continue;
                    memcpy(model + po, f->image, n);
                    if (leg && f->linit_argfield) { const vp_field_t* af = &f->fields[f->linit_argfield - 1]; bf_set(model + po, af->pos, af->width, 1); }
                    vp_curop("init-at-4GiB-boundary", f->id, leg ? "legacy" : "current", (uint64_t)pi);
                    vp_call(c);
                    int rc = 0;
                    if (leg) rc = f->linit(p, 1); else f->init(p);
                    c->evals++;
                    if ((rc != 0 || memcmp(pg, model, 16384) != 0) && vp_viol(c, "init", f->id, leg ? "legacy-init" : "init", "header-at-4GiB-address-boundary", "bytes-differ-from-model", 0)) {
                        o_s(c, "{\"placement\":"); o_u(c, (uint64_t)pi); o_s(c, ",\"rc\":"); o_u(c, (uint64_t)(int64_t)rc); o_s(c, ",\"expected\":\""); o_hex(c, model + po, n > 24 ? 24 : n); o_s(c, "\",\"actual\":\""); o_hex(c, p, n > 24 ? 24 : n); o_s(c, "\"}"); o_end(c);
                    }
                    memcpy(pg, model, 16384);
                }
            } else {
                for (uint32_t fi = 0; fi < f->nfields; fi++) {
                    const vp_field_t* fld = &f->fields[fi];
                    for (int path = P_GENERIC; path <= P_DEDICATED; path++) {
                        if (path == P_DEDICATED && !fld->dget) continue;
                        vp_curop(mode[0] == 'r' ? "read-at-4GiB-boundary" : "write-at-4GiB-boundary", f->id, fld->name, (uint64_t)pi);
                        vp_call(c);
                        c->evals++;
                        if (mode[0] == 'r') {
                            uint64_t got = path == P_DEDICATED ? fld->dget(p) : f->gget(p, fld->id), exp = bf_get(model + po, fld->pos, fld->width);
                            if (got != exp && vp_viol(c, "read", f->id, fld->name, path_names[path], "header-at-4GiB-address-boundary", "value-mismatch")) { o_s(c, "{\"placement\":"); o_u(c, (uint64_t)pi); o_s(c, "}"); o_end(c); }
                        } else {
                            uint64_t v = vp_rng_next(&c->rng);
                            bf_set(model + po, fld->pos, fld->width, v & bf_mask(fld->width));
                            if (path == P_DEDICATED) fld->dset(p, v); else f->gset(p, fld->id, v);
                        }
                        if (memcmp(pg, model, 16384) != 0) {
                            if (vp_viol(c, mode[0] == 'r' ? "read" : "write", f->id, fld->name, path_names[path], "header-at-4GiB-address-boundary", "bytes-differ-from-model")) { o_s(c, "{\"placement\":"); o_u(c, (uint64_t)pi); o_s(c, "}"); o_end(c); }
                            memcpy(pg, model, 16384);
                        }
                    }
                }
            }
        }
    }
}

/* ================================================================== mode: read (C01) */
static uint64_t read_one(fm_t* m, const vp_field_t* fld, int path, const char* bcname)
{
    size_t n = hdr_len(m->f);
    vp_curop("read", m->f->id, fld->name, path);
    uint64_t got = do_get(m, fld, path);
    uint64_t exp = bf_get(SH(m), fld->pos, fld->width);
    m->c->evals++;
    vp_tr_u64(m->c, got);
    if (got != exp) viol_value(m, "read", fld->name, path_names[path], "value-mismatch", n, exp, got, 0, 0);
    fm_check(m, "read", fld->name, path_names[path], n, 0, 0);
    if (got && g_samples && bcname[0] == 'r' && sample(m->c)) {
        vp_ctx_t* c = m->c;
        o_s(c, "{\"op\":\"read\",\"format\":\""); o_s(c, m->f->id); o_s(c, "\",\"field\":\""); o_s(c, fld->name); o_s(c, "\",\"path\":\""); o_s(c, path_names[path]);
        o_s(c, "\",\"buffer\":\""); o_hex(c, PDU(m), n); o_s(c, "\",\"returned\":\""); o_x(c, got); o_s(c, "\",\"model\":\""); o_x(c, exp); o_s(c, "\"}"); o_end(c);
    }
    return got;
}

/* every reader on a header that lies in read-only memory (a received frame mapped read-only, a const image): a reader that
 * stores into the buffer - even the bytes it just read - faults there */
typedef struct { fm_t* m; const vp_field_t* fld; int path; uint8_t* p; uint64_t got; } roget_t;
static void roget_thunk(void* a)
{
    roget_t* k = (roget_t*)a;
    if (k->path == P_DEDICATED) k->got = k->fld->dget(k->p);
    else if (k->path == P_LEGACY) { uint64_t v = 0; uint32_t v32 = 0; if (k->m->f->lvalbytes == 4) { k->m->f->lget(k->p, k->fld->id, &v32); k->got = v32; } else { k->m->f->lget(k->p, k->fld->id, &v); k->got = v; } }
    else k->got = k->m->f->gget(k->p, k->fld->id);
}
static void read_readonly(fm_t* m)
{
    const vp_format_t* f = m->f; vp_ctx_t* c = m->c;
    size_t n = hdr_len(f);
    static uint8_t* page;
    if (!page) page = vp_map(8192);
    for (uint32_t rep = 0; rep < 3; rep++) {
        uint8_t* p = page + 4096 - n - (rep == 2 ? 3 : 0) + (rep == 1 ? 0 : 0);   /* header ends at the page end (rep 0,1) or 3 bytes before */
        vp_readonly(page, 8192, 0);
        vp_rng_fill(&c->rng, page, 8192);
        if (rep == 1) memset(p, 0xff, n);
        vp_readonly(page, 8192, 1);
        for (uint32_t fi = 0; fi < f->nfields; fi++) {
            const vp_field_t* fld = &f->fields[fi];
            for (int path = P_GENERIC; path <= P_LEGACY; path++) {
                if (path == P_DEDICATED && !fld->dget) continue;
                if (path == P_LEGACY && (!f->lget || fld->id >= f->max_id)) continue;
                roget_t k = { m, fld, path, p, 0 };
                vp_curop("read-readonly", f->id, fld->name, path);
                vp_call(c);
                int sig = vp_try(roget_thunk, &k);
                uint64_t exp = bf_get(p, fld->pos, fld->width);
                if (path == P_LEGACY && f->lvalbytes == 4) exp = (uint32_t)exp;
                c->evals++;
                if (sig) { if (vp_viol(c, "read", f->id, fld->name, path_names[path], "fault-on-read-only-buffer", 0)) { o_s(c, "{\"signal\":"); o_u(c, (uint64_t)sig); o_s(c, "}"); o_end(c); } }
                else if (k.got != exp && vp_viol(c, "read", f->id, fld->name, path_names[path], "value-mismatch-on-read-only-buffer", 0)) { o_s(c, "{\"expected\":\""); o_x(c, exp); o_s(c, "\",\"got\":\""); o_x(c, k.got); o_s(c, "\"}"); o_end(c); }
            }
        }
    }
    vp_readonly(page, 8192, 0);
}

static void mode_read(fm_t* m, uint64_t* nontrivial)
{
    read_readonly(m);
    boundary_phase(m, "read");
    const vp_format_t* f = m->f;
    size_t n = hdr_len(f);
    uint8_t hdr[MAXHDR];
    for (uint32_t fi = 0; fi < f->nfields; fi++) {
        const vp_field_t* fld = &f->fields[fi];
        for (int path = P_GENERIC; path <= P_DEDICATED; path++) {
            if (path == P_DEDICATED && !fld->dget) continue;
            uint64_t distinct = 0, lastv = ~(uint64_t)0;
            for (uint32_t bc = 0; bc < BC_NFIXED; bc++) {
                make_buffer(&m->c->rng, bc, hdr, n, fld); fm_load(m, hdr, n);
                uint64_t v = read_one(m, fld, path, bc_names[bc]);
                if (v != lastv) { distinct++; lastv = v; }
            }
            /* walking one / walking zero over every header bit: exact support of the field */
            for (uint32_t b = 0; b < n * 8; b++) {
                memset(hdr, 0, n); hdr[b >> 3] = (uint8_t)(0x80u >> (b & 7)); fm_load(m, hdr, n);
                uint64_t v = read_one(m, fld, path, "walk1");
                if (v != lastv) { distinct++; lastv = v; }
                memset(hdr, 0xff, n); hdr[b >> 3] = (uint8_t)~(0x80u >> (b & 7)); fm_load(m, hdr, n);
                v = read_one(m, fld, path, "walk0");
                if (v != lastv) { distinct++; lastv = v; }
            }
            for (uint64_t r = 0; r < g_reps; r++) {
                vp_rng_fill(&m->c->rng, hdr, n); fm_load(m, hdr, n);
                uint64_t v = read_one(m, fld, path, "random");
                if (v != lastv) { distinct++; lastv = v; }
            }
            for (uint64_t k = 1; k <= NEGVALS; k++) {
                vp_rng_fill(&m->c->rng, hdr, n); bf_set(hdr, fld->pos, fld->width, ((uint64_t)0 - k) & bf_mask(fld->width)); fm_load(m, hdr, n);
                read_one(m, fld, path, "negated-small");
            }
            /* every value of a small field (width <= 12) on a random background: exhaustive in the field's own bits */
            if (fld->width > 0 && fld->width <= 12) {
                for (uint64_t val = 0; val < ((uint64_t)1 << fld->width); val++) {
                    vp_rng_fill(&m->c->rng, hdr, n); bf_set(hdr, fld->pos, fld->width, val); fm_load(m, hdr, n);
                    read_one(m, fld, path, "every-value");
                }
            }
            if (distinct > 1) (*nontrivial)++;
        }
    }
}

/* values derived from what the field holds at the moment: equal halves, same low bytes, neighbours - the inputs on which a
 * "skip the write when nothing changes" or compare-before-write shortcut with a narrowed comparison goes wrong */

static uint64_t derived_value(vp_rng_t* r, uint32_t k, uint64_t old, uint32_t width)
{
    uint64_t hi = width > 32 ? width - 32 : width / 2;
    switch (k % NDERIVED) {
    case 0:  return old;
    case 1:  return old & 0xffffffffull;
    case 2:  return old & 0xffffull;
    case 3:  return old & 0xffull;
    case 4:  return old >> 32;
    case 5:  return old ^ 1;
    case 6:  return width ? old ^ ((uint64_t)1 << (width - 1)) : old;
    case 7:  return old & ~0xffffffffull;
    case 8:  return old & ~0xffull;
    case 9:  return old + 1;
    case 10: return old - 1;
    case 11: return ~old;
    case 12: return width < 64 ? old | (vp_rng_next(r) << width) : old;
    case 13: return (old << 32) | (old & 0xffffffffull);
    case 14: return hi ? old ^ ((uint64_t)1 << hi) : old;
    default: return (old >> 8) | (old << 56);
    }
}

/* ================================================================== mode: write (C02) */
static void write_one(fm_t* m, const vp_field_t* fld, int path, uint64_t v, uint64_t* changed)
{
    size_t n = hdr_len(m->f);
    uint64_t mv = v & bf_mask(fld->width);
    uint64_t old = bf_get(SH(m), fld->pos, fld->width);
    bf_set(SH(m), fld->pos, fld->width, mv);
    vp_curop("write", m->f->id, fld->name, path);
    do_set(m, fld, path, v);
    vp_tr_bytes(m->c, PDU(m), n);
    if (old != mv) (*changed)++;
    fm_check(m, "write", fld->name, path_names[path], n, v, 1);
    if (old != mv && v > mv && g_samples && sample(m->c)) {
        vp_ctx_t* c = m->c;
        o_s(c, "{\"op\":\"write\",\"format\":\""); o_s(c, m->f->id); o_s(c, "\",\"field\":\""); o_s(c, fld->name); o_s(c, "\",\"path\":\""); o_s(c, path_names[path]);
        o_s(c, "\",\"before\":\""); o_hex(c, m->before, n); o_s(c, "\",\"value\":\""); o_x(c, v); o_s(c, "\",\"after\":\""); o_hex(c, PDU(m), n); o_s(c, "\"}"); o_end(c);
    }
    /* read back through the matching reader */
    if (path == P_GENERIC || fld->dget) {
        uint64_t got = do_get(m, fld, path);
        m->c->evals++;
        vp_tr_u64(m->c, got);
        if (got != mv) viol_value(m, "write", fld->name, path_names[path], "readback-mismatch", n, mv, got, v, 1);
    }
}

static void mode_write(fm_t* m, uint64_t* nontrivial)
{
    boundary_phase(m, "write");
    const vp_format_t* f = m->f;
    size_t n = hdr_len(f);
    uint8_t hdr[MAXHDR];
    static const uint32_t priors[] = { BC_ZERO, BC_ONES, BC_55, BC_AA, BC_RANDOM };
    for (uint32_t fi = 0; fi < f->nfields; fi++) {
        const vp_field_t* fld = &f->fields[fi];
        for (int path = P_GENERIC; path <= P_DEDICATED; path++) {
            if (path == P_DEDICATED && !fld->dset) continue;
            uint64_t changed = 0;
            for (uint32_t pi = 0; pi < 5; pi++) {
                for (uint32_t vc = 0; vc < VP_NVALCLASS; vc++) {
                    make_buffer(&m->c->rng, priors[pi], hdr, n, fld); fm_load(m, hdr, n);
                    write_one(m, fld, path, vp_value_class(&m->c->rng, vc, fld->width), &changed);
                }
            }
            /* every exact-fit power of two: each bit of the field individually */
            for (uint32_t b = 0; b < fld->width; b++) {
                make_buffer(&m->c->rng, BC_RANDOM, hdr, n, fld); fm_load(m, hdr, n);
                write_one(m, fld, path, (uint64_t)1 << b, &changed);
                make_buffer(&m->c->rng, BC_RANDOM, hdr, n, fld); fm_load(m, hdr, n);
                write_one(m, fld, path, bf_mask(fld->width) ^ ((uint64_t)1 << b), &changed);
            }
            for (uint64_t r = 0; r < g_reps; r++) {
                vp_rng_fill(&m->c->rng, hdr, n); fm_load(m, hdr, n);
                write_one(m, fld, path, vp_value_class(&m->c->rng, 12 + (uint32_t)(r & 1), fld->width), &changed);
            }
            for (uint64_t k = 1; k <= NEGVALS; k++) {
                vp_rng_fill(&m->c->rng, hdr, n);
                if (k & 1) bf_set(hdr, fld->pos, fld->width, ((uint64_t)0 - k) & bf_mask(fld->width));
                fm_load(m, hdr, n);
                write_one(m, fld, path, (k & 1) ? vp_rng_next(&m->c->rng) & bf_mask(fld->width) : (uint64_t)0 - k, &changed);
            }
            /* values related to the current contents of the field (random and half-zero prior contents) */
            for (uint32_t k = 0; k < 3 * NDERIVED; k++) {
                vp_rng_fill(&m->c->rng, hdr, n);
                if (k >= NDERIVED && fld->width > 1) {
                    uint64_t half = fld->width / 2, cur = bf_get(hdr, fld->pos, fld->width);
                    bf_set(hdr, fld->pos, fld->width, k < 2 * NDERIVED ? (cur & (((uint64_t)1 << half) - 1)) : (cur & ~(((uint64_t)1 << half) - 1)));
                }
                fm_load(m, hdr, n);
                write_one(m, fld, path, derived_value(&m->c->rng, k, bf_get(hdr, fld->pos, fld->width), fld->width), &changed);
            }
            /* every value of a small field (width <= 12), also with garbage above the field width */
            if (fld->width > 0 && fld->width <= 12) {
                for (uint64_t val = 0; val < ((uint64_t)1 << fld->width); val++) {
                    vp_rng_fill(&m->c->rng, hdr, n); fm_load(m, hdr, n);
                    write_one(m, fld, path, val, &changed);
                    vp_rng_fill(&m->c->rng, hdr, n); fm_load(m, hdr, n);
                    write_one(m, fld, path, val | (vp_rng_next(&m->c->rng) << fld->width), &changed);
                }
            }
            if (changed) (*nontrivial)++;
        }
    }
}

/* ================================================================== mode: raw (C01/C02 descriptors) */
static void mode_raw(fm_t* m, uint64_t* nontrivial)
{
    /* every descriptor shape: start quadlet 0..7 (+ a few larger), bit offset 0..31, width 0..64 */
    static const uint32_t quads[] = { 0, 1, 2, 3, 4, 5, 6, 7, 11, 30, 61, 63, 64, 127, 128, 200, 253 };
    Avtp_FieldDescriptor_t desc[3];
    vp_ctx_t* c = m->c;
    m->f = 0;
    for (uint32_t qi = 0; qi < sizeof(quads) / sizeof(quads[0]); qi++) {
        for (uint32_t off = 0; off < 32; off++) {
            for (uint32_t w = 0; w <= 64; w++) {
                uint32_t q = quads[qi];
                uint32_t pos = q * 32 + off;
                size_t span = (size_t)q * 4 + ((off + w + 31) / 32) * 4;   /* bytes touched at most */
                size_t n = span + 16 < MAXHDR ? MAXHDR : span + 16;
                desc[0].quadlet = 0; desc[0].offset = 0; desc[0].bits = 8;
                desc[1].quadlet = (uint8_t)q; desc[1].offset = (uint8_t)off; desc[1].bits = (uint8_t)w;
                desc[2].quadlet = 1; desc[2].offset = 3; desc[2].bits = 29;
                uint64_t changed = 0;
                uint32_t reps = 3 + (uint32_t)(g_reps / 64);
                for (uint32_t k = 0; k < reps + 3; k++) {
                    /* buffer */
                    uint8_t* p = PDU(m); uint8_t* s = SH(m);
                    if (k == 0) { memset(p, 0, n); }
                    else if (k == 1) { memset(p, 0xff, n); }
                    else vp_rng_fill(&c->rng, p, n);
                    memcpy(s, p, n);
                    memcpy(m->before, p, MAXHDR);
                    /* read */
                    vp_curop("raw-read", "RAW", "", pos * 100 + w);
                    vp_call(c);
                    uint64_t got = Avtp_GetField(desc, 3, p, 1);
                    uint64_t exp = bf_get(s, pos, w);
                    c->evals++;
                    vp_tr_u64(c, got);
                    if (got != exp && vp_viol(c, "raw", "RAW", "get", w > 32 ? "wide" : "narrow", "value-mismatch", 0)) {
                        o_s(c, "{\"quadlet\":"); o_u(c, q); o_s(c, ",\"offset\":"); o_u(c, off); o_s(c, ",\"bits\":"); o_u(c, w);
                        o_s(c, ",\"expected\":\""); o_x(c, exp); o_s(c, "\",\"got\":\""); o_x(c, got);
                        o_s(c, "\",\"bytes\":\""); o_hex(c, p + q * 4, 12); o_s(c, "\"}"); o_end(c);
                    }
                    {
                        size_t o1, c1, l1;
                        c->evals++;
                        if (vp_arena_diff(c, &m->a, &o1, &c1, &l1)) {
                            if (vp_viol(c, "raw", "RAW", "get", "buffer-modified", 0, 0)) {
                                o_s(c, "{\"quadlet\":"); o_u(c, q); o_s(c, ",\"offset\":"); o_u(c, off); o_s(c, ",\"bits\":"); o_u(c, w); o_s(c, "}"); o_end(c);
                            }
                            vp_arena_resync(&m->a);
                        }
                    }
                    /* write */
                    uint64_t v = vp_value_class(&c->rng, k, w);
                    uint64_t mv = v & bf_mask(w);
                    if (bf_get(s, pos, w) != mv) changed++;
                    bf_set(s, pos, w, mv);
                    vp_curop("raw-write", "RAW", "", pos * 100 + w);
                    vp_call(c);
                    Avtp_SetField(desc, 3, p, 1, v);
                    vp_tr_bytes(c, p + q * 4, 12);
                    {
                        size_t o1, c1, l1;
                        c->evals++;
                        if (vp_arena_diff(c, &m->a, &o1, &c1, &l1)) {
                            if (vp_viol(c, "raw", "RAW", "set", w > 32 ? "wide" : "narrow", "bytes-mismatch", 0)) {
                                o_s(c, "{\"quadlet\":"); o_u(c, q); o_s(c, ",\"offset\":"); o_u(c, off); o_s(c, ",\"bits\":"); o_u(c, w);
                                o_s(c, ",\"value\":\""); o_x(c, v);
                                o_s(c, "\",\"first_off\":"); o_u(c, o1 >= m->off ? o1 - m->off : 0);
                                o_s(c, ",\"before\":\""); o_hex(c, m->before, MAXHDR > 24 ? 24 : MAXHDR);
                                o_s(c, "\",\"expected\":\""); o_hex(c, s + q * 4, 12);
                                o_s(c, "\",\"actual\":\""); o_hex(c, p + q * 4, 12); o_s(c, "\"}"); o_end(c);
                            }
                            vp_arena_resync(&m->a);
                        }
                    }
                    /* out-of-range index into the table: reader returns 0, writer writes nothing */
                    if (k == 0) {
                        vp_call(c);
                        uint64_t z = Avtp_GetField(desc, 3, p, 3 + off);
                        c->evals++;
                        if (z != 0 && vp_viol(c, "raw", "RAW", "get", "index-out-of-range", 0, 0)) { o_s(c, "{}"); o_end(c); }
                    }
                }
                if (changed) (*nontrivial)++;
            }
        }
    }
    /* a caller-owned descriptor table is an ordinary mutable object: the same object used again after one member changed
     * (another start quadlet; an entry corrected after it was malformed) must be read afresh on every call */
    {
        static const uint8_t offs[] = { 0, 5, 8, 31 }, ws[] = { 1, 8, 13, 32, 33, 64 }, qs[] = { 0, 1, 2, 3, 7, 2, 0, 5 };
        for (uint32_t oi = 0; oi < 4; oi++) for (uint32_t wi = 0; wi < 6; wi++) {
            desc[0].quadlet = 0; desc[0].offset = 0; desc[0].bits = 8;
            desc[1].offset = offs[oi]; desc[1].bits = ws[wi];
            desc[2].quadlet = 1; desc[2].offset = 3; desc[2].bits = (oi == 1 && wi < 3) ? 65 : 29;      /* sometimes a malformed neighbour at first */
            if (oi == 0 && wi == 0) {
                /* a table object whose very first use happens while a neighbour entry is still malformed */
                static Avtp_FieldDescriptor_t* fresh;      /* its own mapping: an address no other table ever had */
                if (!fresh) fresh = (Avtp_FieldDescriptor_t*)vp_map(4096);
                uint8_t* p = PDU(m); uint8_t* sh = SH(m);
                fresh[0].quadlet = 0; fresh[0].offset = 0; fresh[0].bits = 8; fresh[1].quadlet = 2; fresh[1].offset = 4; fresh[1].bits = 24;
                fresh[2].quadlet = 1; fresh[2].offset = 40; fresh[2].bits = 99;
                for (uint32_t step = 0; step < 4; step++) {
                    if (step == 2) { fresh[2].offset = 3; fresh[2].bits = 29; }
                    vp_rng_fill(&c->rng, p, MAXHDR); memcpy(sh, p, MAXHDR);
                    vp_call(c);
                    uint64_t got = Avtp_GetField(fresh, 3, p, 1), exp = bf_get(sh, 2 * 32 + 4, 24);
                    c->evals++;
                    vp_tr_u64(c, got);
                    if (got != exp && vp_viol(c, "raw", "RAW", "get", "table-first-used-with-a-malformed-neighbour-entry", "value-mismatch", 0)) { o_s(c, "{\"step\":"); o_u(c, step); o_s(c, "}"); o_end(c); }
                    uint64_t v = vp_rng_next(&c->rng);
                    bf_set(sh, 2 * 32 + 4, 24, v & bf_mask(24));
                    vp_call(c);
                    Avtp_SetField(fresh, 3, p, 1, v);
                    size_t o1, c1, l1;
                    c->evals++;
                    if (vp_arena_diff(c, &m->a, &o1, &c1, &l1)) {
                        if (vp_viol(c, "raw", "RAW", "set", "table-first-used-with-a-malformed-neighbour-entry", "bytes-mismatch", 0)) { o_s(c, "{\"step\":"); o_u(c, step); o_s(c, "}"); o_end(c); }
                        vp_arena_resync(&m->a);
                    }
                }
            }
            for (uint32_t step = 0; step < 8; step++) {
                uint8_t* p = PDU(m); uint8_t* sh = SH(m);
                desc[1].quadlet = qs[step];
                if (step == 3) desc[2].bits = 29;                                                           /* corrected in place */
                uint32_t pos = (uint32_t)qs[step] * 32 + offs[oi], w = ws[wi];
                vp_rng_fill(&c->rng, p, MAXHDR); memcpy(sh, p, MAXHDR);
                vp_curop("raw-same-descriptor-object", "RAW", "", pos * 100 + w);
                vp_call(c);
                uint64_t got = Avtp_GetField(desc, 3, p, 1), exp = bf_get(sh, pos, w);
                c->evals++;
                vp_tr_u64(c, got);
                if (got != exp && vp_viol(c, "raw", "RAW", "get", "descriptor-object-modified-between-calls", "value-mismatch", 0)) { o_s(c, "{\"step\":"); o_u(c, step); o_s(c, ",\"quadlet\":"); o_u(c, qs[step]); o_s(c, ",\"offset\":"); o_u(c, offs[oi]); o_s(c, ",\"bits\":"); o_u(c, w); o_s(c, "}"); o_end(c); }
                uint64_t v = vp_rng_next(&c->rng);
                bf_set(sh, pos, w, v & bf_mask(w));
                vp_call(c);
                Avtp_SetField(desc, 3, p, 1, v);
                size_t o1, c1, l1;
                c->evals++;
                if (vp_arena_diff(c, &m->a, &o1, &c1, &l1)) {
                    if (vp_viol(c, "raw", "RAW", "set", "descriptor-object-modified-between-calls", "bytes-mismatch", 0)) { o_s(c, "{\"step\":"); o_u(c, step); o_s(c, ",\"quadlet\":"); o_u(c, qs[step]); o_s(c, ",\"offset\":"); o_u(c, offs[oi]); o_s(c, ",\"bits\":"); o_u(c, w); o_s(c, "}"); o_end(c); }
                    vp_arena_resync(&m->a);
                }
            }
        }
    }
}

/* ================================================================== mode: extent (C03) */
typedef struct { fm_t* m; const vp_field_t* fld; int path; int op; uint8_t* buf; uint64_t v; uint64_t out; } ext_call_t;

static void ext_thunk(void* arg)
{
    ext_call_t* e = (ext_call_t*)arg;
    const vp_format_t* f = e->m->f;
    switch (e->op) {
    case 0: e->out = (e->path == P_DEDICATED) ? e->fld->dget(e->buf) : f->gget(e->buf, e->fld->id); break;
    case 1: if (e->path == P_DEDICATED) e->fld->dset(e->buf, e->v); else f->gset(e->buf, e->fld->id, e->v); break;
    case 2: f->init(e->buf); break;
    case 3: f->linit(e->buf, 1); break;
    case 4: { uint64_t v = 0; f->lget(e->buf, e->fld->id, &v); e->out = v; break; }
    case 5: f->lset(e->buf, e->fld->id, e->v); break;
    }
}

static void u32fact(fm_t* m, const char* what, uint64_t got, uint64_t exp)
{
    m->c->evals++;
    if (got != exp && vp_viol(m->c, "extent", m->f->id, what, "size-fact", 0, 0)) {
        vp_ctx_t* c = m->c;
        o_s(c, "{\"what\":\""); o_s(c, what); o_s(c, "\",\"got\":"); o_u(c, got); o_s(c, ",\"expected\":"); o_u(c, exp); o_s(c, "}"); o_end(c);
    }
}

static void mode_extent(fm_t* m, uint64_t* nontrivial)
{
    const vp_format_t* f = m->f;
    vp_ctx_t* c = m->c;
    const char* kind = vp_cfg_str("EXTENT", "guard");
    int heap = strcmp(kind, "heap") == 0;
    /* (a) size facts */
    u32fact(m, "spec_bytes%4", f->spec_bytes % 4, 0);
    u32fact(m, "sizeof(type)==wire", f->sizeof_type, f->spec_bytes);
    u32fact(m, "offsetof(payload)==wire", f->offsetof_payload, f->spec_bytes);
    u32fact(m, "HEADER_LEN==wire", f->lenmacro, f->spec_bytes);
    if (f->payload_ptr) {
        uint8_t* p = PDU(m);
        vp_call(c);
        uint8_t* q = f->payload_ptr(p);
        u32fact(m, "payload_accessor-pdu", (uint64_t)(q - p), f->spec_bytes);
        /* whatever the header holds: every value of every header byte on zero / all-ones / random backgrounds, every value of
         * every field up to 8 bits wide, random headers */
        uint8_t hdr[MAXHDR]; size_t hn = f->spec_bytes;
        for (uint32_t bg = 0; bg < 3; bg++) for (size_t b = 0; b < hn; b++) for (uint32_t val = 0; val < 256; val++) {
            if (bg == 0) memset(hdr, 0, hn); else if (bg == 1) memset(hdr, 0xff, hn); else vp_rng_fill(&c->rng, hdr, hn);
            hdr[b] = (uint8_t)val; fm_load(m, hdr, hn);
            vp_call(c);
            q = f->payload_ptr(PDU(m));
            u32fact(m, "payload_accessor-pdu(header-contents)", (uint64_t)(q - PDU(m)), f->spec_bytes);
            fm_check(m, "extent", "payload-accessor", "call", hn, 0, 0);
        }
        for (uint32_t fi = 0; fi < f->nfields; fi++) if (f->fields[fi].width && f->fields[fi].width <= 8)
            for (uint64_t val = 0; val < ((uint64_t)1 << f->fields[fi].width); val++) {
                vp_rng_fill(&c->rng, hdr, hn); bf_set(hdr, f->fields[fi].pos, f->fields[fi].width, val); fm_load(m, hdr, hn);
                vp_call(c);
                q = f->payload_ptr(PDU(m));
                u32fact(m, "payload_accessor-pdu(header-contents)", (uint64_t)(q - PDU(m)), f->spec_bytes);
            }
    }
    for (uint32_t i = 0; i < f->nlstructs; i++) {
        u32fact(m, f->lstructs[i].name, f->lstructs[i].size, f->lstructs[i].expect_size);
        u32fact(m, f->lstructs[i].name, f->lstructs[i].payload_off, f->lstructs[i].expect_payload_off);
    }
    /* (b) exact-extent buffers of the *published* length */
    size_t n = f->lenmacro;
    /* heap blocks: the header also as the tail of a block of n + k bytes (k = 4, 8, 12, 2, 1), so that it ends at the end of
     * the object at every residue of its start address modulo 8 - a widened (8-byte) access to the last quadlet is inside
     * the header's own aligned word when the header starts on a 16-byte boundary, and behind the object when it does not */
    static const uint32_t heapk[6] = { 0, 4, 8, 12, 2, 1 };
    static const char* const heapname[6] = { "heap-exact", "heap-exact-tail+4", "heap-exact-tail+8", "heap-exact-tail+12", "heap-exact-tail+2", "heap-exact-tail+1" };
    for (int placement = 0; placement < (heap ? 6 : 2); placement++) {
        uint32_t hk = heap ? heapk[placement] : 0;
        uint8_t* buf = heap ? vp_heap(n + hk) + hk : (placement == 0 ? vp_guard_end(n) : vp_guard_begin(n));
        const char* pname = heap ? heapname[placement] : (placement == 0 ? "guard-after" : "guard-before");
        for (uint32_t rep = 0; rep < 4; rep++) {
            for (uint32_t fi = 0; fi < f->nfields; fi++) {
                const vp_field_t* fld = &f->fields[fi];
                for (int path = P_GENERIC; path <= P_DEDICATED; path++) {
                    if (path == P_DEDICATED && !fld->dget) continue;
                    for (int op = 0; op < 2; op++) {
                        ext_call_t e = { m, fld, path, op, buf, vp_rng_next(&c->rng), 0 };
                        vp_rng_fill(&c->rng, buf, n);
                        vp_curop(op ? "extent-set" : "extent-get", f->id, fld->name, path);
                        vp_call(c);
                        int sig = vp_try(ext_thunk, &e);
                        c->evals++;
                        (*nontrivial) += (rep == 0 && fld->width > 0);
                        if (rep == 0 && op == 1 && fi + 1 == f->nfields && g_samples && sample(c)) {
                            o_s(c, "{\"op\":\"extent\",\"format\":\""); o_s(c, f->id); o_s(c, "\",\"placement\":\""); o_s(c, pname); o_s(c, "\",\"buffer_len\":"); o_u(c, n);
                            o_s(c, ",\"field\":\""); o_s(c, fld->name); o_s(c, "\",\"last_bit\":"); o_u(c, fld->pos + fld->width); o_s(c, ",\"signal\":"); o_u(c, (uint64_t)sig); o_s(c, "}"); o_end(c);
                        }
                        if (sig && vp_viol(c, "extent", f->id, fld->name, path_names[path], op ? "set-outside-header" : "get-outside-header", 0)) {
                            o_s(c, "{\"signal\":"); o_u(c, (uint64_t)sig); o_s(c, ",\"placement\":\""); o_s(c, pname);
                            o_s(c, "\",\"buffer_len\":"); o_u(c, n); o_s(c, ",\"field_pos\":"); o_u(c, fld->pos); o_s(c, ",\"field_width\":"); o_u(c, fld->width); o_s(c, "}"); o_end(c);
                        }
                    }
                }
                if (f->lget && fld->id < f->max_id) {
                    for (int op = 4; op <= 5; op++) {
                        ext_call_t e = { m, fld, P_LEGACY, op, buf, vp_rng_next(&c->rng), 0 };
                        vp_curop("extent-legacy", f->id, fld->name, op);
                        vp_call(c);
                        int sig = vp_try(ext_thunk, &e);
                        c->evals++;
                        if (sig && vp_viol(c, "extent", f->id, fld->name, "legacy", "outside-header", 0)) {
                            o_s(c, "{\"signal\":"); o_u(c, (uint64_t)sig); o_s(c, ",\"placement\":\""); o_s(c, pname); o_s(c, "\"}"); o_end(c);
                        }
                    }
                }
            }
            for (int op = 2; op <= 3; op++) {
                if (op == 2 && !f->init) continue;
                if (op == 3 && !f->linit) continue;
                ext_call_t e = { m, 0, 0, op, buf, 0, 0 };
                vp_rng_fill(&c->rng, buf, n);
                vp_curop("extent-init", f->id, op == 2 ? "init" : "legacy-init", 0);
                vp_call(c);
                int sig = vp_try(ext_thunk, &e);
                c->evals++;
                if (sig && vp_viol(c, "extent", f->id, op == 2 ? "init" : "legacy-init", "init-outside-header", 0, 0)) {
                    o_s(c, "{\"signal\":"); o_u(c, (uint64_t)sig); o_s(c, ",\"placement\":\""); o_s(c, pname); o_s(c, "\"}"); o_end(c);
                }
            }
        }
        /* state-dependent accesses: from the canonical (or zero) header put field A into a small state, then drive field B
         * through max -> 0 -> 1 on the exact-extent buffer */
        for (uint32_t i = 0; i < f->nfields; i++) {
            for (uint32_t ai = 0; ai < 4; ai++) {
                for (uint32_t j2 = 0; j2 < 2 * f->nfields; j2++) {
                    uint32_t j = j2 / 2; int bpath = (int)(j2 & 1);
                    if (i == j || (bpath == P_DEDICATED && !f->fields[j].dget)) continue;
                    if (f->image) memcpy(buf, f->image, n < f->spec_bytes ? n : f->spec_bytes); else memset(buf, 0, n);
                    static const uint32_t seqv[4] = { 0, 2, 0, 1 };
                    for (uint32_t st = 0; st < 4; st++) {
                        const vp_field_t* fld = &f->fields[st == 0 ? i : j];
                        uint64_t v = st == 0 ? vp_value_class(&c->rng, ai, fld->width) : vp_value_class(&c->rng, seqv[st], fld->width);
                        int path = st == 0 ? P_GENERIC : bpath;
                        ext_call_t e = { m, fld, path, 1, buf, v, 0 };
                        vp_curop("extent-state-seq", f->id, fld->name, path);
                        vp_call(c);
                        int sig = vp_try(ext_thunk, &e);
                        c->evals++;
                        if (sig && vp_viol(c, "extent", f->id, fld->name, path_names[path], "set-outside-header-in-state", 0)) {
                            o_s(c, "{\"signal\":"); o_u(c, (uint64_t)sig); o_s(c, ",\"placement\":\""); o_s(c, pname); o_s(c, "\",\"state_field\":\""); o_s(c, f->fields[i].name); o_s(c, "\"}"); o_end(c);
                        }
                    }
                }
            }
        }
        if (heap) vp_heap_free(buf - hk); else vp_guard_free(buf, n);
    }
}

/* ================================================================== mode: init (C04) */
static void init_case(fm_t* m, uint32_t prior, int legacy, uint32_t arg, uint64_t* nontrivial)
{
    const vp_format_t* f = m->f;
    vp_ctx_t* c = m->c;
    size_t n = hdr_len(f);
    size_t span = n + 64;
    uint8_t* p = PDU(m); uint8_t* s = SH(m);
    /* prior contents of header and surroundings */
    switch (prior) {
    case 0: memset(p - 32, 0x00, span + 32); break;
    case 1: memset(p - 32, 0xff, span + 32); break;
    case 2: memset(p - 32, 0xa5, span + 32); break;
    default: vp_rng_fill(&c->rng, p - 32, span + 32); break;
    }
    memcpy(s - 32, p - 32, span + 32);
    memcpy(m->before, p, n > MAXHDR ? MAXHDR : n);
    int differs = memcmp(p, f->image, n) != 0;
    memcpy(s, f->image, n);
    const char* name = legacy ? "legacy-init" : "init";
    if (legacy && f->linit_argfield) {
        const vp_field_t* af = &f->fields[f->linit_argfield - 1];
        bf_set(s, af->pos, af->width, arg & bf_mask(af->width));
    }
    for (int round = 0; round < 2; round++) {
        vp_curop("init", f->id, name, round);
        errno_noise();                 /* whatever errno holds from unrelated earlier calls must not influence an initialiser */
        vp_call(c);
        if (legacy) {
            int rc = f->linit(p, arg);
            c->evals++;
            if (rc != 0 && vp_viol(c, "init", f->id, name, "rc", 0, 0)) { o_s(c, "{\"rc\":"); o_u(c, (uint64_t)(int64_t)rc); o_s(c, "}"); o_end(c); }
        } else {
            f->init(p);
        }
        vp_tr_bytes(c, p, n);
        fm_check(m, "init", name, round ? "second-call" : "first-call", n, arg, legacy && f->linit_argfield);
        if (round == 0 && prior == 3 && g_samples && sample(c)) {
            o_s(c, "{\"op\":\""); o_s(c, name); o_s(c, "\",\"format\":\""); o_s(c, f->id); o_s(c, "\",\"arg\":"); o_u(c, arg);
            o_s(c, ",\"before\":\""); o_hex(c, m->before, n); o_s(c, "\",\"after\":\""); o_hex(c, p, n); o_s(c, "\",\"trailing_after\":\""); o_hex(c, p + n, 8); o_s(c, "\"}"); o_end(c);
        }
    }
    if (differs) (*nontrivial)++;
}

static void mode_init(fm_t* m, uint64_t* nontrivial)
{
    const vp_format_t* f = m->f;
    /* which call is the first one of the process matters for lazily built state: VP_LEGACYFIRST runs the legacy
     * initialiser before the current one, VP_FIRSTARG rotates the order of its argument values */
    uint32_t first = (uint32_t)vp_cfg_u64("FIRSTARG", 0);
    int legacy_first = (int)vp_cfg_u64("LEGACYFIRST", 0);
    for (int pass = 0; pass < 2; pass++) {
        int do_legacy = (pass == 0) == (legacy_first != 0);
        if (!do_legacy && f->init && f->image) {
            for (uint32_t prior = 0; prior < 3; prior++) init_case(m, prior, 0, 0, nontrivial);
            for (uint64_t r = 0; r < g_reps; r++) init_case(m, 3, 0, 0, nontrivial);
        }
        if (do_legacy && f->linit && f->image) {
            uint32_t nargs = f->linit_argfield ? 256 : 1;
            for (uint32_t a = 0; a < nargs; a++) {
                uint32_t arg = (a + first) % nargs;
                for (uint32_t prior = 0; prior < 3; prior++) init_case(m, prior, 1, arg, nontrivial);
                for (uint64_t r = 0; r < 1 + g_reps / 16; r++) init_case(m, 3, 1, arg, nontrivial);
            }
        }
    }
}

/* ================================================================== mode: badargs (C11) */
typedef struct { const vp_format_t* f; const vp_field_t* fld; int op; uint32_t id; uint64_t v; void* pdu; void* res; uint64_t out; int rc; } ba_call_t;

static void ba_thunk(void* arg)
{
    ba_call_t* e = (ba_call_t*)arg;
    const vp_format_t* f = e->f;
    switch (e->op) {
    case 0: e->out = f->gget(e->pdu, e->id); break;
    case 1: f->gset(e->pdu, e->id, e->v); break;
    case 2: e->out = e->fld->dget(e->pdu); break;
    case 3: e->fld->dset(e->pdu, e->v); break;
    case 4: f->init(e->pdu); break;
    case 5: e->rc = f->lget(e->pdu, e->id, e->res); break;
    case 6: e->rc = f->lset(e->pdu, e->id, e->v); break;
    case 7: e->rc = f->linit(e->pdu, (uint32_t)e->v); break;
    }
}

static const char* const ba_opnames[] = { "generic-get", "generic-set", "dedicated-get", "dedicated-set", "init", "legacy-get", "legacy-set", "legacy-init" };

static void ba_run(fm_t* m, ba_call_t* e, const char* what, const char* idclass, int expect_rc_checked, int expect_rc, uint64_t* nontrivial)
{
    vp_ctx_t* c = m->c;
    const vp_format_t* f = m->f;
    size_t n = hdr_len(f);
    vp_curop("badargs", f->id, ba_opnames[e->op], e->id);
    vp_call(c);
    e->out = 0; e->rc = 0;
    int sig = vp_try(ba_thunk, e);
    c->evals++;
    (*nontrivial)++;
    const char* fname = e->fld ? e->fld->name : "-";
    if (g_samples && (e->op == 1 || e->op == 5) && sample(c)) {
        o_s(c, "{\"op\":\""); o_s(c, ba_opnames[e->op]); o_s(c, "\",\"format\":\""); o_s(c, f->id); o_s(c, "\",\"case\":\""); o_s(c, what); o_s(c, "\",\"id\":"); o_u(c, e->id);
        o_s(c, ",\"pdu_null\":"); o_u(c, e->pdu == 0); o_s(c, ",\"result_null\":"); o_u(c, e->res == 0); o_s(c, ",\"signal\":"); o_u(c, (uint64_t)sig);
        o_s(c, ",\"rc\":\""); if (e->rc < 0) { o_s(c, "-"); o_u(c, (uint64_t)(-(int64_t)e->rc)); } else o_u(c, (uint64_t)e->rc); o_s(c, "\",\"returned\":\""); o_x(c, e->out); o_s(c, "\"}"); o_end(c);
    }
    if (sig) {
        if (vp_viol(c, "badargs", f->id, ba_opnames[e->op], what, "fault", 0)) {
            o_s(c, "{\"signal\":"); o_u(c, (uint64_t)sig); o_s(c, ",\"id\":"); o_u(c, e->id); o_s(c, ",\"idclass\":\""); o_s(c, idclass);
            o_s(c, "\",\"field\":\""); o_s(c, fname); o_s(c, "\"}"); o_end(c);
        }
        return;
    }
    if ((e->op == 0 || e->op == 2) && e->out != 0) {
        if (vp_viol(c, "badargs", f->id, ba_opnames[e->op], what, "nonzero-result", idclass)) {
            o_s(c, "{\"id\":"); o_u(c, e->id); o_s(c, ",\"result\":\""); o_x(c, e->out); o_s(c, "\",\"field\":\""); o_s(c, fname);
            o_s(c, "\",\"buffer\":\""); o_hex(c, PDU(m), n); o_s(c, "\"}"); o_end(c);
        }
    }
    if (expect_rc_checked && e->rc != expect_rc) {
        if (vp_viol(c, "badargs", f->id, ba_opnames[e->op], what, "rc", idclass)) {
            o_s(c, "{\"id\":"); o_u(c, e->id); o_s(c, ",\"rc\":\""); if (e->rc < 0) { o_s(c, "-"); o_u(c, (uint64_t)(-(int64_t)e->rc)); } else o_u(c, (uint64_t)e->rc);
            o_s(c, "\",\"expected_rc\":\""); if (expect_rc < 0) { o_s(c, "-"); o_u(c, (uint64_t)(-(int64_t)expect_rc)); } else o_u(c, (uint64_t)expect_rc); o_s(c, "\"}"); o_end(c);
        }
    }
    /* nothing may have been written anywhere (the arena holds the PDU and the result slot) */
    {
        size_t o1, c1, l1;
        c->evals++;
        if (vp_arena_diff(c, &m->a, &o1, &c1, &l1)) {
            if (vp_viol(c, "badargs", f->id, ba_opnames[e->op], what, "memory-written", idclass)) {
                o_s(c, "{\"id\":"); o_u(c, e->id); o_s(c, ",\"value\":\""); o_x(c, e->v); o_s(c, "\",\"first_off\":");
                if (o1 >= m->off) o_u(c, o1 - m->off); else { o_s(c, "-"); o_u(c, m->off - o1); }
                o_s(c, ",\"nbytes\":"); o_u(c, c1);
                o_s(c, ",\"expected\":\""); o_hex(c, SH(m), n); o_s(c, "\",\"actual\":\""); o_hex(c, PDU(m), n); o_s(c, "\"}"); o_end(c);
            }
            vp_arena_resync(&m->a);
        }
    }
}

static void mode_badargs(fm_t* m, uint64_t* nontrivial)
{
    const vp_format_t* f = m->f;
    vp_ctx_t* c = m->c;
    size_t n = hdr_len(f);
    uint8_t hdr[MAXHDR];
    uint32_t max = f->max_id;
    /* result slot lives in the arena, 256 bytes behind the PDU */
    uint8_t* res = PDU(m) + 256;
    /* identifiers outside the enumeration */
    uint32_t ids[160]; const char* idc[160]; uint32_t nid = 0;
#define ADD(v, cl) do { if ((uint32_t)(v) >= max && nid < 160) { ids[nid] = (uint32_t)(v); idc[nid] = cl; nid++; } } while (0)
    ADD(max, "max"); ADD(max + 1, "max+1"); ADD(127, "127"); ADD(128, "128"); ADD(255, "255");
    for (uint32_t k = 0; k < max && k < 40; k++) ADD(256 + k, "256+k");
    for (uint32_t k = 0; k < max && k < 40; k++) ADD(512 + k, "512+k");
    for (uint32_t k = 0; k < max && k < 40; k++) ADD(65536 + k, "65536+k");
    ADD(0x7fffffffu, "int-max"); ADD(0xffffffffu, "minus-one"); ADD(0x80000000u, "int-min");
    for (uint32_t k = 0; k < 16; k++) { uint32_t r = (uint32_t)vp_rng_next(&c->rng); ADD(r | (max <= 0xff ? 0x100u : 0x10000u), "random"); }
#undef ADD
    /* identifiers that wrap to a valid index when multiplied by a small element size modulo 2^32: ceil(m * 2^32 / d) + k */
    static uint32_t wrapids[2048]; uint32_t nwrap = 0;
    {
        static const uint32_t divs[] = { 2, 3, 4, 5, 6, 8, 12, 16, 24 };
        for (uint32_t di = 0; di < 9; di++) for (uint32_t mm = 1; mm < divs[di]; mm++) {
            uint64_t base = (((uint64_t)mm << 32) + divs[di] - 1) / divs[di];
            for (uint32_t k = 0; k < max && k < 40 && nwrap < 2048; k++) { uint64_t v = base + k; if (v >= max && v <= 0xffffffffull) wrapids[nwrap++] = (uint32_t)v; }
        }
    }
    for (uint32_t bc = 0; bc < 3; bc++) {
        if (bc == 0) memset(hdr, 0xff, n); else vp_rng_fill(&c->rng, hdr, n);
        for (uint32_t i = 0; i < nid; i++) {
            fm_load(m, hdr, n);
            ba_call_t e = { f, 0, 0, ids[i], 0, PDU(m), 0, 0, 0 };
            ba_run(m, &e, "invalid-id", idc[i], 0, 0, nontrivial);
            for (uint32_t vc = 0; vc < 4; vc++) {
                static const uint32_t vcl[] = { 0, 6, 7, 13 };
                ba_call_t w = { f, 0, 1, ids[i], vp_value_class(&c->rng, vcl[vc], 64), PDU(m), 0, 0, 0 };
                ba_run(m, &w, "invalid-id", idc[i], 0, 0, nontrivial);
            }
            if (f->lget) {
                /* legacy: error code, result untouched */
                memset(res, 0xc3, 8); memcpy(m->a.shadow + m->off + 256, res, 8);
                ba_call_t g = { f, 0, 5, ids[i], 0, PDU(m), res, 0, 0 };
                ba_run(m, &g, "invalid-id", idc[i], 1, EINVAL_RC, nontrivial);
                ba_call_t s = { f, 0, 6, ids[i], vp_rng_next(&c->rng), PDU(m), 0, 0, 0 };
                ba_run(m, &s, "invalid-id", idc[i], 1, EINVAL_RC, nontrivial);
                /* values an implementation might treat specially: 0 (what a rejected read returns), 1, all ones */
                for (uint32_t sv = 0; sv < 3; sv++) {
                    ba_call_t s2 = { f, 0, 6, ids[i], sv == 0 ? 0 : sv == 1 ? 1 : ~(uint64_t)0, PDU(m), 0, 0, 0 };
                    ba_run(m, &s2, "invalid-id", idc[i], 1, EINVAL_RC, nontrivial);
                }
                ba_call_t g2 = { f, 0, 5, ids[i], 0, 0, res, 0, 0 };
                ba_run(m, &g2, "invalid-id+null-pdu", idc[i], 1, EINVAL_RC, nontrivial);
                ba_call_t g3 = { f, 0, 5, ids[i], 0, PDU(m), 0, 0, 0 };
                ba_run(m, &g3, "invalid-id+null-result", idc[i], 1, EINVAL_RC, nontrivial);
            }
        }
    }
    /* realistic prior contents: the canonical image of the format with every length-like field (9..16 bits) saturated and
     * one selector-like field (<= 8 bits) at each of its values - an acceptance that is gated on "the buffer looks like a
     * stream of kind X" needs such a header, random bytes practically never form one */
    if (f->image) {
        for (uint32_t fi = 0; fi < f->nfields; fi++) {
            const vp_field_t* sel = &f->fields[fi];
            if (sel->width > 8) continue;
            for (uint64_t sv = 0; sv <= bf_mask(sel->width); sv++) {
                memcpy(hdr, f->image, n);
                for (uint32_t k = 0; k < f->nfields; k++) {
                    const vp_field_t* lf = &f->fields[k];
                    if (lf->width >= 9 && lf->width <= 16) bf_set(hdr, lf->pos, lf->width, (sv & 1) ? bf_mask(lf->width) : bf_mask(lf->width) >> 1);
                }
                bf_set(hdr, sel->pos, sel->width, sv);
                for (uint32_t i = 0; i < nid && i < 4; i++) {
                    fm_load(m, hdr, n);
                    ba_call_t e = { f, 0, 0, ids[i], 0, PDU(m), 0, 0, 0 };
                    ba_run(m, &e, "invalid-id", "realistic-header", 0, 0, nontrivial);
                    ba_call_t w = { f, 0, 1, ids[i], vp_rng_next(&c->rng), PDU(m), 0, 0, 0 };
                    ba_run(m, &w, "invalid-id", "realistic-header", 0, 0, nontrivial);
                    if (f->lget) {
                        memset(res, 0xc3, 8); memcpy(m->a.shadow + m->off + 256, res, 8);
                        ba_call_t g = { f, 0, 5, ids[i], 0, PDU(m), res, 0, 0 };
                        ba_run(m, &g, "invalid-id", "realistic-header", 1, EINVAL_RC, nontrivial);
                        ba_call_t s = { f, 0, 6, ids[i], vp_rng_next(&c->rng), PDU(m), 0, 0, 0 };
                        ba_run(m, &s, "invalid-id", "realistic-header", 1, EINVAL_RC, nontrivial);
                    }
                }
            }
        }
    }
    memset(hdr, 0xff, n);
    for (uint32_t i = 0; i < nwrap; i++) {
        fm_load(m, hdr, n);
        ba_call_t e = { f, 0, 0, wrapids[i], 0, PDU(m), 0, 0, 0 };
        ba_run(m, &e, "invalid-id", "wraps-modulo-2^32", 0, 0, nontrivial);
        ba_call_t w = { f, 0, 1, wrapids[i], 0, PDU(m), 0, 0, 0 };
        ba_run(m, &w, "invalid-id", "wraps-modulo-2^32", 0, 0, nontrivial);
    }
    /* null PDU through every entry point - once before and once after the same entry points have been used with valid
     * arguments (a guard that is only skipped once some state has been built shows in the second round) */
    for (int round = 0; round < 2; round++) {
    if (round == 1) {
        vp_rng_fill(&c->rng, hdr, n); fm_load(m, hdr, n);
        if (f->init && f->image) { memcpy(SH(m), f->image, n); vp_call(c); f->init(PDU(m)); fm_check(m, "badargs", "init", "valid-before-null", n, 0, 0); }
        if (f->linit && f->image) { memcpy(SH(m), f->image, n); if (f->linit_argfield) { const vp_field_t* af = &f->fields[f->linit_argfield - 1]; bf_set(SH(m), af->pos, af->width, 1); } vp_call(c); f->linit(PDU(m), 1); fm_check(m, "badargs", "legacy-init", "valid-before-null", n, 0, 0); }
        for (uint32_t fi = 0; fi < f->nfields; fi++) {
            const vp_field_t* fld = &f->fields[fi];
            uint64_t v = vp_rng_next(&c->rng);
            bf_set(SH(m), fld->pos, fld->width, v & bf_mask(fld->width));
            do_set(m, fld, fld->dset ? P_DEDICATED : P_GENERIC, v);
            (void)do_get(m, fld, fld->dget ? P_DEDICATED : P_GENERIC);
            (void)do_get(m, fld, P_GENERIC);
        }
        fm_check(m, "badargs", "accessors", "valid-before-null", n, 0, 0);
    }
    vp_rng_fill(&c->rng, hdr, n); fm_load(m, hdr, n);
    for (uint32_t fi = 0; fi < f->nfields; fi++) {
        const vp_field_t* fld = &f->fields[fi];
        ba_call_t e0 = { f, fld, 0, fld->id, 0, 0, 0, 0, 0 };
        ba_run(m, &e0, "null-pdu", "valid-id", 0, 0, nontrivial);
        ba_call_t e1 = { f, fld, 1, fld->id, vp_rng_next(&c->rng), 0, 0, 0, 0 };
        ba_run(m, &e1, "null-pdu", "valid-id", 0, 0, nontrivial);
        if (fld->dget) {
            ba_call_t e2 = { f, fld, 2, fld->id, 0, 0, 0, 0, 0 };
            ba_run(m, &e2, "null-pdu", fld->name, 0, 0, nontrivial);
            ba_call_t e3 = { f, fld, 3, fld->id, vp_rng_next(&c->rng), 0, 0, 0, 0 };
            ba_run(m, &e3, "null-pdu", fld->name, 0, 0, nontrivial);
        }
        if (f->lget && fld->id < max) {
            memset(res, 0xc3, 8); memcpy(m->a.shadow + m->off + 256, res, 8);
            ba_call_t g = { f, fld, 5, fld->id, 0, 0, res, 0, 0 };
            ba_run(m, &g, "null-pdu", "valid-id", 1, EINVAL_RC, nontrivial);
            ba_call_t g2 = { f, fld, 5, fld->id, 0, PDU(m), 0, 0, 0 };
            ba_run(m, &g2, "null-result", "valid-id", 1, EINVAL_RC, nontrivial);
            ba_call_t g3 = { f, fld, 5, fld->id, 0, 0, 0, 0, 0 };
            ba_run(m, &g3, "null-pdu+null-result", "valid-id", 1, EINVAL_RC, nontrivial);
            ba_call_t s = { f, fld, 6, fld->id, vp_rng_next(&c->rng), 0, 0, 0, 0 };
            ba_run(m, &s, "null-pdu", "valid-id", 1, EINVAL_RC, nontrivial);
            /* valid arguments: success, result equals the model - whatever the field holds (k > 0: the field holds -k, the
             * values an implementation might use as an in-band error marker) */
            for (uint32_t k = 0; k <= NEGVALS; k++) {
                if (k) { uint64_t nv = ((uint64_t)0 - k) & bf_mask(fld->width); bf_set(PDU(m), fld->pos, fld->width, nv); bf_set(SH(m), fld->pos, fld->width, nv); }
                uint64_t exp = bf_get(SH(m), fld->pos, fld->width);
                uint8_t* sres = m->a.shadow + m->off + 256;
                memset(res, 0xc3, 8); memset(sres, 0xc3, 8);
                /* model of the result object in host representation: write through a typed store */
                if (f->lvalbytes == 4) { uint32_t x = (uint32_t)exp; memcpy(sres, &x, 4); } else { uint64_t x = exp; memcpy(sres, &x, 8); }
                ba_call_t ok = { f, fld, 5, fld->id, 0, PDU(m), res, 0, 0 };
                vp_curop("badargs", f->id, "legacy-get-valid", fld->id);
                vp_call(c);
                int sig = vp_try(ba_thunk, &ok);
                c->evals++;
                if ((sig || ok.rc != 0) && vp_viol(c, "badargs", f->id, "legacy-get", "valid-args", "rc", 0)) {
                    o_s(c, "{\"field\":\""); o_s(c, fld->name); o_s(c, "\",\"signal\":"); o_u(c, (uint64_t)sig); o_s(c, "}"); o_end(c);
                }
                fm_check(m, "badargs", fld->name, "legacy-get-valid", n, 0, 0);
                uint64_t v = vp_rng_next(&c->rng);
                uint64_t mv = (f->lvalbytes == 4 ? (uint32_t)v : v) & bf_mask(fld->width);
                bf_set(SH(m), fld->pos, fld->width, mv);
                ba_call_t oks = { f, fld, 6, fld->id, v, PDU(m), 0, 0, 0 };
                vp_call(c);
                sig = vp_try(ba_thunk, &oks);
                c->evals++;
                if ((sig || oks.rc != 0) && vp_viol(c, "badargs", f->id, "legacy-set", "valid-args", "rc", 0)) {
                    o_s(c, "{\"field\":\""); o_s(c, fld->name); o_s(c, "\"}"); o_end(c);
                }
                fm_check(m, "badargs", fld->name, "legacy-set-valid", n, v, 1);
            }
        }
    }
    if (round == 0) {
        /* a rejected call must not store into the PDU at all - not even the bytes it read: the PDU lies in a read-only page */
        static uint8_t* page;
        if (!page) page = vp_map(4096);
        vp_readonly(page, 4096, 0);
        vp_rng_fill(&c->rng, page, 4096);
        uint8_t* rp = page + 1024 + g_place;
        vp_readonly(page, 4096, 1);
        for (uint32_t i = 0; i < nid + 8 && i < 40; i++) {
            uint32_t id = i < nid ? ids[i] : (nwrap ? wrapids[(i * 37) % nwrap] : max);
            for (int op = 0; op < 4; op++) {
                if (op >= 2 && !f->lget) continue;
                uint64_t r64 = 0xc3c3c3c3c3c3c3c3ull;
                ba_call_t e = { f, 0, op == 0 ? 0 : op == 1 ? 1 : op == 2 ? 5 : 6, id, (i & 1) ? 0 : vp_rng_next(&c->rng), rp, &r64, 0, 0 };
                vp_curop("badargs-readonly", f->id, ba_opnames[e.op], id);
                vp_call(c);
                int sig = vp_try(ba_thunk, &e);
                c->evals++;
                if (sig) { if (vp_viol(c, "badargs", f->id, ba_opnames[e.op], "invalid-id", "stores-into-read-only-pdu", 0)) { o_s(c, "{\"id\":"); o_u(c, id); o_s(c, ",\"signal\":"); o_u(c, (uint64_t)sig); o_s(c, "}"); o_end(c); } }
                else if (op == 0 && e.out != 0) { if (vp_viol(c, "badargs", f->id, ba_opnames[e.op], "invalid-id", "nonzero-result-on-read-only-pdu", 0)) { o_s(c, "{\"id\":"); o_u(c, id); o_s(c, "}"); o_end(c); } }
                else if (op >= 2 && e.rc != EINVAL_RC) { if (vp_viol(c, "badargs", f->id, ba_opnames[e.op], "invalid-id", "return-code-on-read-only-pdu", 0)) { o_s(c, "{\"id\":"); o_u(c, id); o_s(c, ",\"rc\":"); o_u(c, (uint64_t)(int64_t)e.rc); o_s(c, "}"); o_end(c); } }
                (*nontrivial)++;
            }
        }
        vp_readonly(page, 4096, 0);
    }
    if (f->init) { ba_call_t e = { f, 0, 4, 0, 0, 0, 0, 0, 0 }; ba_run(m, &e, round ? "null-pdu-after-valid-use" : "null-pdu", "-", 0, 0, nontrivial); }
    if (f->linit) {
        ba_call_t e = { f, 0, 7, 0, 1, 0, 0, 0, 0 }; ba_run(m, &e, round ? "null-pdu-after-valid-use" : "null-pdu", "-", 1, EINVAL_RC, nontrivial);
    }
    }
}

/* ================================================================== mode: legacy (C12) */
static void mode_legacy(fm_t* m, fm_t* m2, uint64_t* nontrivial)
{
    const vp_format_t* f = m->f;
    vp_ctx_t* c = m->c;
    if (!f->lget) return;
    m2->f = f;
    size_t n = hdr_len(f);
    uint8_t hdr[MAXHDR];
    /* layout facts */
    for (uint32_t i = 0; i < f->nlstructs; i++) {
        const vp_lstruct_t* l = &f->lstructs[i];
        c->evals += 2;
        if ((l->size != l->expect_size || l->payload_off != l->expect_payload_off) && vp_viol(c, "legacy", f->id, l->name, "struct-layout", 0, 0)) {
            o_s(c, "{\"sizeof\":"); o_u(c, l->size); o_s(c, ",\"expected\":"); o_u(c, l->expect_size);
            o_s(c, ",\"payload_off\":"); o_u(c, l->payload_off); o_s(c, ",\"expected_off\":"); o_u(c, l->expect_payload_off); o_s(c, "}"); o_end(c);
        }
    }
    /* alias names designate the spec field of that name */
    for (uint32_t i = 0; i < f->naliases; i++) {
        const vp_alias_t* al = &f->aliases[i];
        const vp_field_t* fld = 0;
        for (uint32_t k = 0; k < f->nfields; k++) if (strcmp(f->fields[k].name, al->field) == 0) fld = &f->fields[k];
        c->evals++;
        if (fld && al->value != fld->id && vp_viol(c, "legacy", f->id, al->macro, "alias-value", 0, 0)) {
            o_s(c, "{\"alias\":\""); o_s(c, al->macro); o_s(c, "\",\"value\":"); o_u(c, al->value); o_s(c, ",\"field\":\""); o_s(c, al->field);
            o_s(c, "\",\"field_id\":"); o_u(c, fld->id); o_s(c, "}"); o_end(c);
        }
        /* and, observed by execution: a legacy write through the alias changes exactly that field's bits */
        if (fld) {
            vp_rng_fill(&c->rng, hdr, n); fm_load(m, hdr, n);
            uint64_t v = vp_rng_next(&c->rng);
            uint64_t mv = (f->lvalbytes == 4 ? (uint32_t)v : v) & bf_mask(fld->width);
            bf_set(SH(m), fld->pos, fld->width, mv);
            vp_curop("legacy", f->id, al->macro, 0);
            vp_call(c);
            f->lset(PDU(m), al->value, v);
            fm_check(m, "legacy", al->macro, "alias-write", n, v, 1);
            (*nontrivial)++;
        }
    }
    if (f->has_alias_max) {
        c->evals++;
        if (f->alias_max != f->max_id && vp_viol(c, "legacy", f->id, "alias-max", "alias-value", 0, 0)) { o_s(c, "{\"alias_max\":"); o_u(c, f->alias_max); o_s(c, ",\"max\":"); o_u(c, f->max_id); o_s(c, "}"); o_end(c); }
    }
    /* the result object may lie inside the PDU itself (in-place conversion of a header word to host order): the value
     * delivered must be the field as it was before the call, and only the result object's bytes may change */
    for (uint32_t fi = 0; fi < f->nfields; fi++) {
        const vp_field_t* fld = &f->fields[fi];
        if (fld->id >= f->max_id) continue;
        for (size_t off = 0; off + f->lvalbytes <= n; off += f->lvalbytes) {
            for (uint32_t r = 0; r < 3; r++) {
                make_buffer(&c->rng, r == 0 ? BC_ONES : BC_RANDOM, hdr, n, fld);
                fm_load(m, hdr, n);
                if (((uintptr_t)(PDU(m) + off)) % f->lvalbytes) continue;      /* the result object must be aligned for its type (generator use is the same at every placement) */
                uint64_t exp = bf_get(SH(m), fld->pos, fld->width);
                if (f->lvalbytes == 4) { uint32_t x = (uint32_t)exp; memcpy(SH(m) + off, &x, 4); } else memcpy(SH(m) + off, &exp, 8);
                vp_curop("legacy-aliased-result", f->id, fld->name, off);
                vp_call(c);
                int rc = f->lget(PDU(m), fld->id, PDU(m) + off);
                c->evals++;
                if (rc != 0 && vp_viol(c, "legacy", f->id, fld->name, "get", "result-object-inside-pdu", "rc")) { o_s(c, "{\"offset\":"); o_u(c, off); o_s(c, "}"); o_end(c); }
                fm_check(m, "legacy", fld->name, "get-result-object-inside-pdu", n, off, 0);
            }
        }
    }
    /* paired calls on identical buffers */
    for (uint32_t fi = 0; fi < f->nfields; fi++) {
        const vp_field_t* fld = &f->fields[fi];
        if (fld->id >= f->max_id) continue;
        uint64_t distinct = 0;
        for (uint64_t r = 0; r < 6 + NEGVALS + g_reps; r++) {
            make_buffer(&c->rng, r < 6 ? (uint32_t)r : BC_RANDOM, hdr, n, fld);
            /* field contents that look like a negated errno value (-1 .. -NEGVALS): in-band error markers must not exist */
            if (r >= 6 && r < 6 + NEGVALS) bf_set(hdr, fld->pos, fld->width, ((uint64_t)0 - (r - 5)) & bf_mask(fld->width));
            fm_load(m, hdr, n); fm_load(m2, hdr, n);
            /* get */
            uint64_t lv = 0; uint32_t lv32 = 0; int rc;
            vp_curop("legacy", f->id, fld->name, 1);
            errno_noise();
            vp_call(c);
            if (f->lvalbytes == 4) { rc = f->lget(PDU(m), fld->id, &lv32); lv = lv32; } else rc = f->lget(PDU(m), fld->id, &lv);
            vp_call(c);
            uint64_t cv = f->gget(PDU(m2), fld->id);
            if (f->lvalbytes == 4) cv = (uint32_t)cv;
            c->evals++;
            vp_tr_u64(c, lv);
            if (lv) distinct++;
            if ((rc != 0 || lv != cv) && vp_viol(c, "legacy", f->id, fld->name, "get", "differs-from-current", 0)) {
                o_s(c, "{\"rc\":"); o_u(c, (uint64_t)(int64_t)rc); o_s(c, ",\"legacy\":\""); o_x(c, lv); o_s(c, "\",\"current\":\""); o_x(c, cv);
                o_s(c, "\",\"buffer\":\""); o_hex(c, PDU(m), n); o_s(c, "\"}"); o_end(c);
            }
            fm_check(m, "legacy", fld->name, "get", n, 0, 0);
            /* set: legacy on m, current on m2, both judged by the model */
            uint64_t v = (r >= 6 + NEGVALS && (r & 3) == 1) ? derived_value(&c->rng, (uint32_t)(r >> 2), bf_get(SH(m), fld->pos, fld->width), fld->width)
                       : (r >= 6 && r < 6 + NEGVALS && (r & 1)) ? (uint64_t)0 - (NEGVALS + 6 - r)
                       : vp_value_class(&c->rng, (uint32_t)r, fld->width);
            uint64_t lmv = (f->lvalbytes == 4 ? (uint32_t)v : v) & bf_mask(fld->width);
            bf_set(SH(m), fld->pos, fld->width, lmv);
            bf_set(SH(m2), fld->pos, fld->width, v & bf_mask(fld->width));
            vp_call(c);
            rc = f->lset(PDU(m), fld->id, v);
            vp_call(c);
            f->gset(PDU(m2), fld->id, v);
            c->evals++;
            vp_tr_bytes(c, PDU(m), n);
            if (rc != 0 && vp_viol(c, "legacy", f->id, fld->name, "set", "rc", 0)) { o_s(c, "{\"rc\":"); o_u(c, (uint64_t)(int64_t)rc); o_s(c, "}"); o_end(c); }
            fm_check(m, "legacy", fld->name, "set", n, v, 1);
            fm_check(m2, "legacy", fld->name, "set-current", n, v, 1);
            if (r == 7 && g_samples && sample(c)) {
                o_s(c, "{\"op\":\"legacy-vs-current\",\"format\":\""); o_s(c, f->id); o_s(c, "\",\"field\":\""); o_s(c, fld->name); o_s(c, "\",\"legacy_get\":\""); o_x(c, lv);
                o_s(c, "\",\"current_get\":\""); o_x(c, cv); o_s(c, "\",\"set_value\":\""); o_x(c, v); o_s(c, "\",\"legacy_bytes\":\""); o_hex(c, PDU(m), n); o_s(c, "\",\"current_bytes\":\""); o_hex(c, PDU(m2), n); o_s(c, "\"}"); o_end(c);
            }
            if ((f->lvalbytes != 4 || v <= 0xffffffffull) && memcmp(PDU(m), PDU(m2), n) != 0 &&
                vp_viol(c, "legacy", f->id, fld->name, "set", "differs-from-current", 0)) {
                o_s(c, "{\"value\":\""); o_x(c, v); o_s(c, "\",\"legacy\":\""); o_hex(c, PDU(m), n); o_s(c, "\",\"current\":\""); o_hex(c, PDU(m2), n); o_s(c, "\"}"); o_end(c);
            }
        }
        if (distinct) (*nontrivial)++;
    }
    /* init pairs */
    if (f->linit && f->init) {
        uint32_t nargs = f->linit_argfield ? 256 : 1;
        for (uint32_t arg = 0; arg < nargs; arg++) {
            vp_rng_fill(&c->rng, hdr, n); fm_load(m, hdr, n); fm_load(m2, hdr, n);
            vp_call(c); int rc = f->linit(PDU(m), arg);
            vp_call(c); f->init(PDU(m2));
            if (f->linit_argfield) { const vp_field_t* af = &f->fields[f->linit_argfield - 1]; vp_call(c); f->gset(PDU(m2), af->id, arg); }
            c->evals++;
            (*nontrivial)++;
            if ((rc != 0 || memcmp(PDU(m), PDU(m2), n) != 0) && vp_viol(c, "legacy", f->id, "init", "differs-from-current", 0, 0)) {
                o_s(c, "{\"arg\":"); o_u(c, arg); o_s(c, ",\"legacy\":\""); o_hex(c, PDU(m), n); o_s(c, "\",\"current\":\""); o_hex(c, PDU(m2), n); o_s(c, "\"}"); o_end(c);
            }
            vp_arena_resync(&m->a); vp_arena_resync(&m2->a);
        }
    }
}

/* ================================================================== mode: views (C17) */
/* unrelated traffic on another buffer / format between the paired operations (a receiver handles other PDUs in between):
 * a result that depends on which descriptor table or field was used last shows up in the paired comparison */
static fm_t g_m3;
static void views_noise(vp_ctx_t* c)
{
    fm_t* m3 = &g_m3;
    uint64_t r = vp_rng_next(&c->rng);
    if ((r & 3) == 0) return;
    const vp_format_t* f = vp_formats[(r >> 8) % vp_nformats];
    const vp_field_t* fld = &f->fields[(r >> 16) % f->nfields];
    m3->f = f;
    if (r & 4) { (void)do_get(m3, fld, (fld->dget && (r & 8)) ? P_DEDICATED : P_GENERIC); }
    else { uint64_t v = vp_rng_next(&c->rng); bf_set(SH(m3), fld->pos, fld->width, v & bf_mask(fld->width)); do_set(m3, fld, (fld->dset && (r & 8)) ? P_DEDICATED : P_GENERIC, v); }
    if ((r & 0x30) == 0) { const vp_field_t* g2 = &f->fields[(r >> 24) % f->nfields]; (void)do_get(m3, g2, P_GENERIC); }
}

static void mode_views(fm_t* m, fm_t* m2, const char* filter, uint64_t* nontrivial)
{
    vp_ctx_t* c = m->c;
    uint8_t hdr[MAXHDR];
    for (uint32_t si = 0; si < vp_nshares; si++) {
        const vp_share_t* sh = &vp_shares[si];
        const vp_format_t* A = vp_formats[sh->fa]; const vp_format_t* B = vp_formats[sh->fb];
        const vp_field_t* fa = &A->fields[sh->ia]; const vp_field_t* fb = &B->fields[sh->ib];
        if (filter && strcmp(filter, "all") != 0 && strcmp(filter, A->id) != 0) continue;
        g_samples = (si % 7 == 0) ? 1 : 0;
        size_t n = A->spec_bytes > B->spec_bytes ? A->spec_bytes : B->spec_bytes;
        char pairname[96]; size_t pn = 0;
        { const char* parts[] = { A->id, ".", fa->name, "=", B->id, ".", fb->name };
          for (int k = 0; k < 7; k++) for (const char* q = parts[k]; *q && pn < 95; q++) pairname[pn++] = *q; pairname[pn] = 0; }
        uint64_t seen_nonzero = 0;
        for (uint64_t r = 0; r < 6 + g_reps; r++) {
            for (int pa = P_GENERIC; pa <= P_DEDICATED; pa++) {
                if (pa == P_DEDICATED && !fa->dget) continue;
                for (int pb = P_GENERIC; pb <= P_DEDICATED; pb++) {
                    if (pb == P_DEDICATED && !fb->dget) continue;
                    g_bcfmt = (r & 1) ? A : B;
                    make_buffer(&c->rng, r < 6 ? (uint32_t)r : BC_RANDOM, hdr, n, fa);
                    fm_load(m, hdr, n); fm_load(m2, hdr, n);
                    m->f = A; m2->f = B;
                    /* read through both views */
                    views_noise(c);
                    uint64_t va = do_get(m, fa, pa);
                    views_noise(c);
                    uint64_t vb = do_get(m2, fb, pb);
                    c->evals++;
                    vp_tr_u64(c, va);
                    if (va) seen_nonzero++;
                    if (va != vb && vp_viol(c, "views", pairname, path_names[pa], path_names[pb], "read-differs", 0)) {
                        o_s(c, "{\"a\":\""); o_x(c, va); o_s(c, "\",\"b\":\""); o_x(c, vb); o_s(c, "\",\"buffer\":\""); o_hex(c, PDU(m), n); o_s(c, "\"}"); o_end(c);
                    }
                    /* write through A on m, through B on m2 */
                    uint64_t v = (r >= 6 && (r & 3) == 1) ? derived_value(&c->rng, (uint32_t)(r >> 2), bf_get(SH(m), fa->pos, fa->width), fa->width)
                                                          : vp_value_class(&c->rng, (uint32_t)r, fa->width);
                    uint64_t mv = v & bf_mask(fa->width);
                    bf_set(SH(m), fa->pos, fa->width, mv); bf_set(SH(m2), fb->pos, fb->width, mv);
                    views_noise(c);
                    do_set(m, fa, pa, v);
                    views_noise(c);
                    do_set(m2, fb, pb, v);
                    c->evals++;
                    vp_tr_bytes(c, PDU(m), n);
                    if (memcmp(PDU(m), PDU(m2), n) != 0 && vp_viol(c, "views", pairname, path_names[pa], path_names[pb], "write-differs", 0)) {
                        o_s(c, "{\"value\":\""); o_x(c, v); o_s(c, "\",\"via_a\":\""); o_hex(c, PDU(m), n); o_s(c, "\",\"via_b\":\""); o_hex(c, PDU(m2), n); o_s(c, "\"}"); o_end(c);
                    }
                    if (r == 7 && g_samples && sample(c)) {
                        o_s(c, "{\"op\":\"views\",\"pair\":\""); o_s(c, pairname); o_s(c, "\",\"paths\":\""); o_s(c, path_names[pa]); o_s(c, "/"); o_s(c, path_names[pb]);
                        o_s(c, "\",\"read_a\":\""); o_x(c, va); o_s(c, "\",\"read_b\":\""); o_x(c, vb); o_s(c, "\",\"written\":\""); o_x(c, v); o_s(c, "\",\"bytes_via_a\":\""); o_hex(c, PDU(m), n); o_s(c, "\",\"bytes_via_b\":\""); o_hex(c, PDU(m2), n); o_s(c, "\"}"); o_end(c);
                    }
                    fm_check(m, "views", pairname, "write-a", A->spec_bytes, v, 1);
                    fm_check(m2, "views", pairname, "write-b", B->spec_bytes, v, 1);
                    /* write via A, read via B on the same buffer */
                    m->f = B;
                    views_noise(c);
                    uint64_t back = do_get(m, fb, pb);
                    c->evals++;
                    if (back != mv && vp_viol(c, "views", pairname, path_names[pa], path_names[pb], "write-a-read-b", 0)) {
                        o_s(c, "{\"value\":\""); o_x(c, v); o_s(c, "\",\"read\":\""); o_x(c, back); o_s(c, "\"}"); o_end(c);
                    }
                }
            }
        }
        if (seen_nonzero) (*nontrivial)++;
    }
    {   /* the noise buffer itself is judged too */
        size_t o1, c1, l1;
        c->evals++;
        if (vp_arena_diff(c, &g_m3.a, &o1, &c1, &l1)) { if (vp_viol(c, "views", "noise-buffer", "bytes-differ-from-model", 0, 0, 0)) { o_s(c, "{}"); o_end(c); } vp_arena_resync(&g_m3.a); }
    }
    m->f = 0; m2->f = 0;
}

/* ================================================================== mode: direct (C05/C12: direct-call sequences) */
static void mode_direct(fm_t* m, uint64_t* nontrivial)
{
    const vp_format_t* f = m->f;
    vp_ctx_t* c = m->c;
    size_t n = hdr_len(f);
    static uint64_t vals[256], out[768];
    uint8_t hdr[MAXHDR], alt[MAXHDR], model[MAXHDR];
    if (!f->seq || f->nseq_steps > 256) return;
    for (uint64_t r = 0; r < 4 + g_reps / 4; r++) {
        make_buffer(&c->rng, r < 4 ? (uint32_t)r : BC_RANDOM, hdr, n, 0);
        vp_rng_fill(&c->rng, alt, n);
        if (r == 1) memset(alt, 0, n);
        for (uint32_t i = 0; i < f->nseq_steps; i++) vals[i] = vp_value_class(&c->rng, (uint32_t)(r + i), f->fields[f->seq_field[i]].width);
        fm_load(m, hdr, n);
        memcpy(model, hdr, n);
        vp_curop("direct-seq", f->id, "", r);
        vp_call(c);
        uint32_t k = f->seq(PDU(m), alt, vals, out);
        memcpy(SH(m), alt, n);                                  /* every step ends with header := alt */
        uint32_t o = 0;
        for (uint32_t i = 0; i < f->nseq_steps && o + 3 <= k; i++) {
            const vp_field_t* fld = &f->fields[f->seq_field[i]];
            int legacy_oob = (f->seq_path[i] == 2 && fld->id >= f->max_id);
            uint64_t e1 = bf_get(model, fld->pos, fld->width);
            bf_set(model, fld->pos, fld->width, vals[i] & bf_mask(fld->width));
            uint64_t e2 = bf_get(model, fld->pos, fld->width);
            memcpy(model, alt, n);
            uint64_t e3 = bf_get(model, fld->pos, fld->width);
            if (legacy_oob) { o += 3; continue; }
            uint64_t e[3] = { e1, e2, e3 };
            static const char* const which[3] = { "first-read", "read-after-write", "read-after-buffer-replaced" };
            for (int j = 0; j < 3; j++) {
                c->evals++;
                vp_tr_u64(c, out[o + j]);
                if (out[o + j] != e[j] && vp_viol(c, "direct", f->id, fld->name, path_names[f->seq_path[i]], which[j], 0)) {
                    o_s(c, "{\"expected\":\""); o_x(c, e[j]); o_s(c, "\",\"got\":\""); o_x(c, out[o + j]); o_s(c, "\",\"written\":\""); o_x(c, vals[i]);
                    o_s(c, "\",\"note\":\"same getter called three times in one function with the buffer changed in between\"}"); o_end(c);
                }
            }
            o += 3;
        }
        fm_check(m, "direct", "sequence", "final-bytes", n, 0, 0);
        (*nontrivial)++;
    }
}

/* ================================================================== mode: history (C05) */
#define H_NBUF 8
#define H_SETSZ (1u << 20)

typedef struct { uint8_t op, path; uint16_t fi; uint32_t arg; uint64_t v; } hop_t;

static uint64_t* g_hset;

static int hset_add(uint64_t h)
{
    if (h == 0) h = 1;
    uint32_t i = (uint32_t)(h % H_SETSZ);
    for (uint32_t p = 0; p < 64; p++) {
        if (g_hset[i] == h) return 0;
        if (g_hset[i] == 0) { g_hset[i] = h; return 1; }
        i = (i + 1) % H_SETSZ;
    }
    return 0;
}

static int pick_path(vp_ctx_t* c, const vp_format_t* f, const vp_field_t* fld)
{
    int cand[3], n = 0;
    cand[n++] = P_GENERIC;
    if (fld->dget) cand[n++] = P_DEDICATED;
    if (f->lget && fld->id < f->max_id) cand[n++] = P_LEGACY;
    return cand[vp_rng_below(&c->rng, (uint64_t)n)];
}

/* apply one op to buffer slot (real + model); returns 0 ok */
static void h_apply(fm_t* m, const hop_t* op)
{
    const vp_format_t* f = m->f;
    vp_ctx_t* c = m->c;
    size_t n = hdr_len(f);
    memcpy(m->before, PDU(m), n > MAXHDR ? MAXHDR : n);
    /* whatever errno holds from unrelated earlier calls of the program must not influence a library call */
    { static const int ev[4] = { 0, EINVAL, ERANGE, 0 }; errno = ev[(op->v ^ op->fi ^ op->arg) & 3]; }
    if (op->op == 3) {            /* a call the library rejects (unknown identifier / null PDU) between the valid ones: no effect, nothing remembered */
        vp_curop("history-rejected-call", f->id, "", op->arg);
        vp_call(c);
        switch (op->arg & 3) {
        case 0: (void)f->gget(PDU(m), f->max_id + (op->arg >> 2)); break;
        case 1: f->gset(PDU(m), f->max_id + (op->arg >> 2), op->v); break;
        case 2: (void)f->gget(0, f->fields[op->fi].id); break;
        default: f->gset(0, f->fields[op->fi].id, op->v); break;
        }
        fm_check(m, "history", "rejected-call", "typed", n, 0, 0);
    } else if (op->op == 0) {            /* init */
        memcpy(SH(m), f->image, n);
        vp_curop("history-init", f->id, "", op->path);
        vp_call(c);
        if (op->path == P_LEGACY) {
            if (f->linit_argfield) { const vp_field_t* af = &f->fields[f->linit_argfield - 1]; bf_set(SH(m), af->pos, af->width, op->arg & bf_mask(af->width)); }
            f->linit(PDU(m), op->arg);
        } else f->init(PDU(m));
        vp_tr_bytes(c, PDU(m), n);
        fm_check(m, "history", "init", path_names[op->path], n, 0, 0);
    } else if (op->op == 1) {     /* set */
        const vp_field_t* fld = &f->fields[op->fi];
        uint64_t v = op->v;
        uint64_t mv = ((op->path == P_LEGACY && f->lvalbytes == 4) ? (uint32_t)v : v) & bf_mask(fld->width);
        bf_set(SH(m), fld->pos, fld->width, mv);
        vp_curop("history-set", f->id, fld->name, op->path);
        do_set(m, fld, op->path, v);
        vp_tr_bytes(c, PDU(m), n);
        fm_check(m, "history", fld->name, path_names[op->path], n, v, 1);
    } else {                      /* get */
        const vp_field_t* fld = &f->fields[op->fi];
        vp_curop("history-get", f->id, fld->name, op->path);
        uint64_t got = do_get(m, fld, op->path);
        uint64_t exp = bf_get(SH(m), fld->pos, fld->width);
        if (op->path == P_LEGACY && f->lvalbytes == 4) exp = (uint32_t)exp;
        c->evals++;
        vp_tr_u64(c, got);
        if (got != exp) viol_value(m, "history", fld->name, path_names[op->path], "read-not-last-written", n, exp, got, 0, 0);
        fm_check(m, "history", fld->name, "get", n, 0, 0);
    }
}

static void gen_op(vp_ctx_t* c, const vp_format_t* f, hop_t* op)
{
    uint64_t r = vp_rng_below(&c->rng, 100);
    memset(op, 0, sizeof *op);
    if (r < 6 && f->init && f->image) {
        op->op = 0;
        op->path = (f->linit && (vp_rng_next(&c->rng) & 1)) ? P_LEGACY : P_GENERIC;
        op->arg = (uint32_t)vp_rng_below(&c->rng, 256);
    } else {
        op->op = r < 62 ? 1 : r < 95 ? 2 : 3;
        if (op->op == 3) op->arg = (uint32_t)vp_rng_below(&c->rng, 64);
        op->fi = (uint16_t)vp_rng_below(&c->rng, f->nfields);
        op->path = (uint8_t)pick_path(c, f, &f->fields[op->fi]);
        op->v = vp_value_class(&c->rng, (uint32_t)vp_rng_below(&c->rng, VP_NVALCLASS + 6), f->fields[op->fi].width);
    }
}

static void mode_history(vp_ctx_t* c, const char* filter, uint64_t* nontrivial)
{
    fm_t slot[H_NBUF]; fm_t solo;
    uint64_t episodes = vp_cfg_u64("EPISODES", 200);
    g_hset = (uint64_t*)vp_map(H_SETSZ * sizeof(uint64_t));
    for (int i = 0; i < H_NBUF; i++) fm_new(&slot[i], c);
    fm_new(&solo, c);
    uint64_t distinct = 0, total_ops = 0;
    static hop_t log0[256];
    uint8_t init0[MAXHDR];
    for (uint64_t ep = 0; ep < episodes; ep++) {
        uint32_t k = 4 + (uint32_t)vp_rng_below(&c->rng, H_NBUF - 3);
        /* slot 0 is always of a format selected by the filter; the others are traffic on other formats */
        for (uint32_t i = 0; i < k; i++) {
            const vp_format_t* f;
            if (i == 0 && filter && strcmp(filter, "all") != 0) f = vp_format_by_id(filter);
            else f = vp_formats[vp_rng_below(&c->rng, vp_nformats)];
            slot[i].f = f;
            uint8_t hdr[MAXHDR];
            make_buffer(&c->rng, (uint32_t)vp_rng_below(&c->rng, 8), hdr, hdr_len(f), 0);
            fm_load(&slot[i], hdr, hdr_len(f));
            if (i == 0) memcpy(init0, hdr, hdr_len(f));
        }
        uint32_t nops = 20 + (uint32_t)vp_rng_below(&c->rng, 181);
        uint32_t n0 = 0;
        uint64_t hh = 0xcbf29ce484222325ull;
        for (uint32_t o = 0; o < nops; o++) {
            uint32_t bi = (uint32_t)vp_rng_below(&c->rng, k);
            if (vp_rng_below(&c->rng, 3) == 0) bi = 0;
            hop_t op; gen_op(c, slot[bi].f, &op);
            if (bi == 0 && n0 < 256) log0[n0++] = op;
            h_apply(&slot[bi], &op);
            total_ops++;
            hh = (hh ^ (((uint64_t)bi << 56) ^ ((uint64_t)op.op << 48) ^ ((uint64_t)op.path << 40) ^ ((uint64_t)op.fi << 24) ^ op.v ^ ((uint64_t)(slot[bi].f->spec_bytes) << 60))) * 0x100000001b3ull;
            /* the untouched buffers must not have changed */
            for (uint32_t j = 0; j < k; j++) {
                if (j == bi) continue;
                size_t o1, c1, l1;
                c->evals++;
                if (vp_arena_diff(c, &slot[j].a, &o1, &c1, &l1)) {
                    if (vp_viol(c, "history", slot[j].f->id, "other-buffer-changed", slot[bi].f->id, 0, 0)) {
                        o_s(c, "{\"op_format\":\""); o_s(c, slot[bi].f->id); o_s(c, "\",\"victim\":\""); o_s(c, slot[j].f->id); o_s(c, "\"}"); o_end(c);
                    }
                    vp_arena_resync(&slot[j].a);
                }
            }
        }
        /* episode end: every getter on every buffer */
        for (uint32_t i = 0; i < k; i++) {
            const vp_format_t* f = slot[i].f;
            for (uint32_t fi = 0; fi < f->nfields; fi++) {
                hop_t g; memset(&g, 0, sizeof g); g.op = 2; g.fi = (uint16_t)fi;
                g.path = P_GENERIC; h_apply(&slot[i], &g);
                if (f->fields[fi].dget) { g.path = P_DEDICATED; h_apply(&slot[i], &g); }
            }
        }
        /* isolation replay: slot 0's own history alone on a fresh buffer gives identical bytes */
        if (n0 < 256) {
            const vp_format_t* f = slot[0].f;
            solo.f = f;
            fm_load(&solo, init0, hdr_len(f));
            for (uint32_t o = 0; o < n0; o++) h_apply(&solo, &log0[o]);
            c->evals++;
            if (memcmp(PDU(&solo), PDU(&slot[0]), hdr_len(f)) != 0 && vp_viol(c, "history", f->id, "isolation-replay", "bytes-differ", 0, 0)) {
                o_s(c, "{\"interleaved\":\""); o_hex(c, PDU(&slot[0]), hdr_len(f)); o_s(c, "\",\"alone\":\""); o_hex(c, PDU(&solo), hdr_len(f)); o_s(c, "\"}"); o_end(c);
            }
        }
        if (hset_add(hh)) distinct++;
        if (ep < 2 && (g_samples = 1) && sample(c)) {
            o_s(c, "{\"op\":\"history-episode\",\"buffers\":"); o_u(c, k); o_s(c, ",\"ops\":"); o_u(c, nops); o_s(c, ",\"slot0_format\":\""); o_s(c, slot[0].f->id);
            o_s(c, "\",\"slot0_ops\":"); o_u(c, n0); o_s(c, ",\"slot0_final\":\""); o_hex(c, PDU(&slot[0]), hdr_len(slot[0].f)); o_s(c, "\",\"history_hash\":\""); o_x(c, hh); o_s(c, "\"}"); o_end(c);
        }
    }
    *nontrivial += distinct;
    vp_stat(c, "history.episodes", episodes);
    vp_stat(c, "history.ops", total_ops);
    vp_stat(c, "history.distinct_histories", distinct);

    /* commutation and idempotence, exhaustive over field pairs of the selected format(s) */
    uint64_t pairs = 0;
    for (uint32_t fx = 0; fx < vp_nformats; fx++) {
        const vp_format_t* f = vp_formats[fx];
        if (filter && strcmp(filter, "all") != 0 && strcmp(filter, f->id) != 0) continue;
        size_t n = hdr_len(f);
        slot[0].f = slot[1].f = f;
        for (uint32_t i = 0; i < f->nfields; i++) {
            for (uint32_t j = 0; j < f->nfields; j++) {
                if (i == j) continue;
                const vp_field_t* a = &f->fields[i]; const vp_field_t* b = &f->fields[j];
                for (uint32_t rep = 0; rep < 3; rep++) {
                    uint8_t hdr[MAXHDR];
                    make_buffer(&c->rng, rep == 0 ? BC_ZERO : (rep == 1 ? BC_ONES : BC_RANDOM), hdr, n, 0);
                    fm_load(&slot[0], hdr, n); fm_load(&slot[1], hdr, n);
                    hop_t oa, ob; memset(&oa, 0, sizeof oa); memset(&ob, 0, sizeof ob);
                    oa.op = ob.op = 1; oa.fi = (uint16_t)i; ob.fi = (uint16_t)j;
                    oa.path = (uint8_t)pick_path(c, f, a); ob.path = (uint8_t)pick_path(c, f, b);
                    oa.v = vp_value_class(&c->rng, rep == 0 ? 2 : 12, a->width); ob.v = vp_value_class(&c->rng, rep == 1 ? 0 : 12, b->width);
                    h_apply(&slot[0], &oa); h_apply(&slot[0], &ob);
                    h_apply(&slot[1], &ob); h_apply(&slot[1], &oa);
                    c->evals++;
                    pairs++;
                    if (memcmp(PDU(&slot[0]), PDU(&slot[1]), n) != 0 && vp_viol(c, "history", f->id, a->name, b->name, "writes-do-not-commute", 0)) {
                        o_s(c, "{\"ab\":\""); o_hex(c, PDU(&slot[0]), n); o_s(c, "\",\"ba\":\""); o_hex(c, PDU(&slot[1]), n); o_s(c, "\"}"); o_end(c);
                    }
                    /* idempotence */
                    h_apply(&slot[0], &ob);
                    c->evals++;
                    if (memcmp(PDU(&slot[0]), PDU(&slot[1]), n) != 0 && vp_viol(c, "history", f->id, b->name, "repeat-write-changes-bytes", 0, 0)) {
                        o_s(c, "{\"once\":\""); o_hex(c, PDU(&slot[1]), n); o_s(c, "\",\"twice\":\""); o_hex(c, PDU(&slot[0]), n); o_s(c, "\"}"); o_end(c);
                    }
                }
            }
        }
    }
    vp_stat(c, "history.commutation_pairs", pairs);

    /* state-dependent effects: from the initialised (or zero) header, put field A into a small state, then drive field B
     * through max -> 0 -> 1; every step is judged by the whole-arena diff (a setter that touches something else only in a
     * particular state of another field shows up here) */
    uint64_t statesteps = 0;
    for (uint32_t fx = 0; fx < vp_nformats; fx++) {
        const vp_format_t* f = vp_formats[fx];
        if (filter && strcmp(filter, "all") != 0 && strcmp(filter, f->id) != 0) continue;
        size_t n = hdr_len(f);
        slot[0].f = f;
        for (uint32_t i = 0; i < f->nfields; i++) {
            static const uint32_t avals[] = { 0, 1, 2, 3 };          /* value classes zero, one, max, msb */
            for (uint32_t ai = 0; ai < 4; ai++) {
                for (uint32_t j2 = 0; j2 < 2 * f->nfields; j2++) {
                    uint32_t j = j2 / 2; int bpath = (int)(j2 & 1);
                    if (i == j || (bpath == P_DEDICATED && !f->fields[j].dget)) continue;
                    uint8_t hdr[MAXHDR];
                    if (f->image) memcpy(hdr, f->image, n); else memset(hdr, 0, n);
                    fm_load(&slot[0], hdr, n);
                    hop_t op; memset(&op, 0, sizeof op);
                    op.op = 1; op.fi = (uint16_t)i; op.path = P_GENERIC; op.v = vp_value_class(&c->rng, avals[ai], f->fields[i].width);
                    h_apply(&slot[0], &op);
                    static const uint32_t bvals[] = { 2, 0, 1 };
                    for (uint32_t bi = 0; bi < 3; bi++) {
                        op.fi = (uint16_t)j; op.v = vp_value_class(&c->rng, bvals[bi], f->fields[j].width);
                        op.path = (uint8_t)bpath;
                        h_apply(&slot[0], &op);
                        statesteps++;
                    }
                }
            }
        }
    }
    vp_stat(c, "history.state_pair_steps", statesteps);
}

/* ================================================================== driver */
static int match_format(const char* list, const char* id)
{
    if (!list || strcmp(list, "all") == 0) return 1;
    size_t n = strlen(id);
    const char* p = list;
    while (*p) {
        const char* e = p; while (*e && *e != ',') e++;
        if ((size_t)(e - p) == n && memcmp(p, id, n) == 0) return 1;
        p = *e ? e + 1 : e;
    }
    return 0;
}

static vp_ctx_t g_ctx;

int main(void)
{
    vp_watchdog_start();       /* these monitors call the library continuously: a long silence is a spinning call */
    vp_ctx_t* c = &g_ctx;
    const char* mode = vp_cfg_str("MODE", "read");
    const char* formats = vp_cfg_str("FORMATS", "all");
    uint64_t seed = vp_cfg_u64("SEED", 1);
    g_reps = vp_cfg_u64("REPS", 50);
    g_place = (uint32_t)vp_cfg_u64("PLACE", 0);
    vp_ctx_init(c, seed, 0x1000 + (uint64_t)mode[0] * 131);
    c->tdump = (int)vp_cfg_u64("DUMP", 0);
    fm_t m, m2;
    fm_new(&m, c); fm_new(&m2, c); fm_new(&g_m3, c);
    uint64_t nontrivial = 0;

    o_s(c, "BEGIN|fieldmon|"); o_s(c, mode); o_s(c, "|"); o_s(c, formats); o_s(c, "|seed="); o_u(c, seed); o_s(c, "|place="); o_u(c, g_place); o_end(c);

    if (strcmp(mode, "raw") == 0) {
        mode_raw(&m, &nontrivial);
        vp_tr_mark(c, "raw");
    } else if (strcmp(mode, "history") == 0) {
        mode_history(c, formats, &nontrivial);
        vp_tr_mark(c, "history");
    } else if (strcmp(mode, "views") == 0) {
        mode_views(&m, &m2, formats, &nontrivial);
        vp_tr_mark(c, "views");
    } else {
        for (uint32_t fx = 0; fx < vp_nformats; fx++) {
            const vp_format_t* f = vp_formats[fx];
            if (!match_format(formats, f->id)) continue;
            m.f = f; g_bcfmt = f;
            uint64_t e0 = c->evals, nt0 = nontrivial;
            g_samples = (uint32_t)vp_cfg_u64("SAMPLES", 2);
            /* per-format PRNG stream so that results do not depend on which formats share a process */
            vp_rng_seed(&c->rng, seed, 0x2000 + fx * 16 + (uint64_t)mode[0]);
            vp_arena_fill(&m.a, &c->rng); vp_arena_fill(&m2.a, &c->rng);
            if (strcmp(mode, "read") == 0) mode_read(&m, &nontrivial);
            else if (strcmp(mode, "write") == 0) mode_write(&m, &nontrivial);
            else if (strcmp(mode, "extent") == 0) mode_extent(&m, &nontrivial);
            else if (strcmp(mode, "init") == 0) { mode_init(&m, &nontrivial); boundary_phase(&m, "init"); }
            else if (strcmp(mode, "badargs") == 0) mode_badargs(&m, &nontrivial);
            else if (strcmp(mode, "legacy") == 0) mode_legacy(&m, &m2, &nontrivial);
            else if (strcmp(mode, "direct") == 0) mode_direct(&m, &nontrivial);
            else { o_s(c, "ERR|unknown mode"); o_end(c); return 2; }
            vp_stat2(c, "evals", f->id, c->evals - e0);
            vp_stat2(c, "nontrivial", f->id, nontrivial - nt0);
            vp_tr_mark(c, f->id);
        }
    }
    vp_stat(c, "nontrivial", nontrivial);
    vp_finish(c, "fieldmon");
    return 0;
}
