/*
 * fuzz_can.c - coverage-guided workload for the ACF-CAN builders (C06): model and builder dispatch of canmon.c; identifier,
 * length, variant, payload bytes, prior message contents (header included) and the source placement come from the fuzz input.
 * Input: [0] builder, [1] variant, [2] payload length 0..64, [3] placement of the message 0..7, [4] placement of the source
 * 0..7 | 0x80: the source is the message's own payload area (zero-copy), [5..8] identifier, then prior header (16), then
 * payload (64), then prior bytes behind.  A sequence of up to 3 rebuilds of the same buffer follows (6 bytes each).
 */
#define VP_NO_MAIN 1
#include <stdlib.h>
#include "canmon.c"

static uint8_t fmem[4096], fshadow[4096];

int LLVMFuzzerInitialize(int* argc, char*** argv) { (void)argc; (void)argv; vp_ctx_init(&g_ctx, 1, 0xCA0); vp_abort_on_violation = 1; return 0; }

static void one_build(vp_ctx_t* c, uint8_t* p, uint8_t* s, int b, int fd, uint32_t L, uint32_t id, const uint8_t* payload, uint32_t srcplace, const char* phase)
{
    int brief = b >= B_BRIEF_ONESHOT;
    uint32_t H = brief ? 8 : 16, pad = (4 - L % 4) % 4, total = H + L + pad;
    uint8_t* blk = vp_heap(L + 8);               /* exact end: the source ends where the block ends */
    uint8_t* src = blk + 8 - (L % 8 ? 0 : 0);
    (void)srcplace;
    src = blk + (8 + L) - L;                      /* source occupies the last L bytes of the block */
    memcpy(src, payload, L);
    uint8_t before[16]; memcpy(before, p, H);
    int ret;
    vp_call(c);
    run_builder(b, p, id, src, L, fd, &ret);
    model(s, brief, id, payload, L, fd, id <= 0x1fffffff, p);
    c->evals++;
    if (memcmp(fmem, fshadow, sizeof fmem) != 0) {
        size_t off = 0; while (fmem[off] == fshadow[off]) off++;
        size_t base = (size_t)(p - fmem);
        const char* reg = (off < base) ? "stray-write-before" : (off - base < H) ? "header" : (off - base < H + L) ? "payload" : (off - base < total) ? "pad-bytes" : "beyond-message";
        if (vp_viol(c, "can", bnames[b], fd ? "fd" : "classic", reg, phase, 0)) {
            o_s(c, "{\"len\":"); o_u(c, L); o_s(c, ",\"id\":\""); o_x(c, id); o_s(c, "\",\"first_off\":"); o_u(c, off >= base ? off - base : 0);
            o_s(c, ",\"header_before\":\""); o_hex(c, before, H); o_s(c, "\",\"expected\":\""); o_hex(c, s, total > 40 ? 40 : total); o_s(c, "\",\"actual\":\""); o_hex(c, p, total > 40 ? 40 : total); o_s(c, "\"}"); o_end(c);
        }
        memcpy(fshadow, fmem, sizeof fmem);
    }
    if (brief) { if (ret != (int)total && vp_viol(c, "can", bnames[b], "return-value", phase, 0, 0)) { o_s(c, "{\"len\":"); o_u(c, L); o_s(c, "}"); o_end(c); } }
    else {
        uint8_t rl = Avtp_Can_GetCanPayloadLength((Avtp_Can_t*)p); uint8_t* pp = Avtp_Can_GetPayload((Avtp_Can_t*)p);
        if (rl != L && vp_viol(c, "can", bnames[b], "payload-length-readback", phase, 0, 0)) { o_s(c, "{\"len\":"); o_u(c, L); o_s(c, ",\"read_back\":"); o_u(c, rl); o_s(c, "}"); o_end(c); }
        if (pp != p + 16 && vp_viol(c, "can", bnames[b], "payload-pointer", phase, 0, 0)) { o_s(c, "{}"); o_end(c); }
    }
    vp_heap_free(blk);
}

int LLVMFuzzerTestOneInput(const uint8_t* d, size_t n)
{
    vp_ctx_t* c = &g_ctx;
    if (n < 9) return 0;
    int b = d[0] % B_N, fd = d[1] & 1; uint32_t L = d[2] % 65, place = d[3] & 7, id; memcpy(&id, d + 5, 4);
    if (!fd && L > 8 && (d[1] & 2)) L %= 9;
    if ((d[1] & 4) == 0) id &= 0x1fffffff;                 /* mostly identifiers inside the 29-bit domain */
    for (size_t i = 0; i < sizeof fmem; i++) fmem[i] = (uint8_t)(i * 167 + 13);
    uint8_t* p = fmem + 1024 + place; uint8_t* s = fshadow + 1024 + place;
    size_t o = 9;
    for (size_t i = 0; i < 16 + 64 + 12; i++) p[i] = o + i < n ? d[o + i] : (uint8_t)(i * 29);
    uint8_t payload[72]; for (size_t i = 0; i < 72; i++) payload[i] = o + 92 + i < n ? d[o + 92 + i] : (uint8_t)(0xa0 + i);
    memcpy(fshadow, fmem, sizeof fmem);
    one_build(c, p, s, b, fd, L, id, payload, d[4], "fuzz-first-build");
    o += 92 + 72;
    for (int k = 0; k < 3 && o + 6 <= n; k++, o += 6) {    /* the same buffer rebuilt (cyclic transmitter) */
        uint32_t L2 = d[o] % 65, id2 = id; int b2 = (d[o + 1] & 8) ? d[o + 1] % B_N : b;
        if ((b2 >= B_BRIEF_ONESHOT) != (b >= B_BRIEF_ONESHOT)) b2 = b;
        if (d[o + 1] & 16) memcpy(&id2, d + o + 2, 4), id2 &= 0x1fffffff;
        for (size_t i = 0; i < 72; i++) payload[i] = (uint8_t)(payload[i] * 3 + d[o + 1]);
        one_build(c, p, s, b2, fd, L2, id2, payload, 0, "fuzz-rebuilt-in-place");
    }
    return 0;
}
