/*
 * vssmon.c - monitor for the ACF-VSS codec (C07 encode, C08 decode, C09 pad, C10 string arrays).
 *
 * The message under test lives in a patterned arena with a model-maintained shadow (write
 * monitor) or in an exact-extent heap block (read/write extent monitor under ASan); caller
 * result objects (VssPath_t, VssData_t, VssData*Array_t, strings[]) live in a second arena so
 * that "nothing else is written" is a diff; source and destination data buffers are exact
 * heap blocks.  The oracle is the reference codec in model/vssref.c.
 *
 * VP_MODE: encode | decode | pad | strarr ; VP_SEED, VP_CASES, VP_PLACE, VP_CANARY, VP_DUMP
 */
#define VP_PROGRESS 1
#include "vp.h"
#include "vssref.h"
#include "avtp/acf/custom/Vss.h"

#define BIG_SZ    (200 * 1024)
#define SMALL_SZ  (16 * 1024)
#define PDU_BASE  4096
#define OBJ_SZ    (128 * 1024)
#define O_DATA    256       /* VssData_t                         */
#define O_STRUCT  512       /* VssData<X>Array_t / VssDataString_t */
#define O_PATH    768       /* VssPath_t                          */
#define O_STRS    4096      /* strings[] pointer array, then the VssDataString_t objects */
#define HDR       12
#define MAXSTR    3200

/* header field positions (spec/wire.spec, VSS) */
#define POS_LEN   7
#define POS_PAD   16
#define POS_MODE  19
#define POS_DT    24

static vp_ctx_t g_ctx;
static uint32_t g_place;
static int g_canary;
static int g_nullempty;   /* describe zero-length inputs by a null pointer (only in builds without UBSan's nonnull check:
                             * memcpy(dst, NULL, 0) is formally undefined before C2y and is not judged here) */
static vp_arena_t A_big, A_small, O;
static uint64_t g_nontrivial;
static uint32_t g_samples = 8;

typedef struct {
    vp_arena_t* a; uint8_t* p; uint8_t* s;   /* current message arena, PDU in mem and shadow */
} msg_t;

static void msg_select(msg_t* m, size_t total)
{
    m->a = (total + 64 < SMALL_SZ - PDU_BASE - 16) ? &A_small : &A_big;
    m->p = m->a->mem + PDU_BASE + g_place;
    m->s = m->a->shadow + PDU_BASE + g_place;
}

/* exact-extent data blocks (ASan) or canary-terminated blocks (other builds) */
static uint8_t* blk_alloc(size_t n)
{
    if (!g_canary) return vp_heap(n);
    uint8_t* p = vp_heap(n + 16);
    memset(p + n, 0xC9, 16);
    return p;
}
/* blocks whose start has a chosen residue modulo 8 (block end still exact): half of the time the residue of the place in the
 * message the bytes are copied to / from, so that copy routines with an "equally aligned" fast path take it */
static uint8_t* ralloc(size_t n, uint32_t kk) { kk &= 7; return blk_alloc(n + kk) + kk; }
static void rfree(uint8_t* p, uint32_t kk) { vp_heap_free(p - (kk & 7)); }
#define KRES(n, where, esz) ((((n) & 1) ? (uint32_t)(g_place + (where)) : (uint32_t)((n) >> 1)) & 7u & ~((uint32_t)(esz) - 1u))
static uint32_t g_src_kk;

static int blk_ok(const uint8_t* p, size_t n)
{
    if (!g_canary) return 1;
    for (int i = 0; i < 16; i++) if (p[n + i] != 0xC9) return 0;
    return 1;
}

static const char* region(size_t off, size_t base, size_t P, size_t D)
{
    if (off < base) return "stray-write-before";
    off -= base;
    if (off < HDR) return "fixed-header";
    if (off < HDR + P) return "path-region";
    if (off < HDR + P + D) return "value-region";
    return "beyond-message";
}

static int check_msg(vp_ctx_t* c, msg_t* m, const char* mode, const char* what, const char* dtname, size_t P, size_t D)
{
    size_t off, cnt, last;
    c->evals++;
    if (!vp_arena_diff(c, m->a, &off, &cnt, &last)) return 0;
    size_t base = (size_t)(m->p - m->a->mem);
    if (vp_viol(c, mode, what, dtname, region(off, base, P, D), 0, 0)) {
        o_s(c, "{\"first_off\":"); if (off >= base) o_u(c, off - base); else { o_s(c, "-"); o_u(c, base - off); }
        o_s(c, ",\"last_off\":"); if (last >= base) o_u(c, last - base); else { o_s(c, "-"); o_u(c, base - last); }
        o_s(c, ",\"nbytes\":"); o_u(c, cnt); o_s(c, ",\"path_bytes\":"); o_u(c, P); o_s(c, ",\"value_bytes\":"); o_u(c, D);
        size_t from = off >= base + 4 ? off - 4 : base;
        o_s(c, ",\"expected_at\":\""); o_hex(c, m->a->shadow + from, 24); o_s(c, "\",\"actual_at\":\""); o_hex(c, m->a->mem + from, 24);
        o_s(c, "\",\"header\":\""); o_hex(c, m->p, HDR); o_s(c, "\",\"place\":"); o_u(c, g_place); o_s(c, "}"); o_end(c);
    }
    vp_arena_resync(m->a);
    return 1;
}

static int check_obj(vp_ctx_t* c, const char* mode, const char* what, const char* dtname, const char* phase)
{
    size_t off, cnt, last;
    c->evals++;
    if (!vp_arena_diff(c, &O, &off, &cnt, &last)) return 0;
    const char* obj = off >= O_STRS ? "strings-array" : off >= O_PATH ? "VssPath_t" : off >= O_STRUCT ? "value-struct" : off >= O_DATA ? "VssData_t" : "before-objects";
    if (vp_viol(c, mode, what, dtname, phase, obj, "result-object-bytes")) {
        o_s(c, "{\"object_off\":"); o_u(c, off); o_s(c, ",\"nbytes\":"); o_u(c, cnt);
        o_s(c, ",\"expected\":\""); o_hex(c, O.shadow + off, 16); o_s(c, "\",\"actual\":\""); o_hex(c, O.mem + off, 16); o_s(c, "\"}"); o_end(c);
    }
    vp_arena_resync(&O);
    return 1;
}

/* ------------------------------------------------------------------ typed element access */
static void el_store(void* base, uint32_t i, uint32_t esize, uint64_t v)
{
    switch (esize) {
    case 1: ((uint8_t*)base)[i] = (uint8_t)v; break;
    case 2: ((uint16_t*)base)[i] = (uint16_t)v; break;
    case 4: ((uint32_t*)base)[i] = (uint32_t)v; break;
    default: ((uint64_t*)base)[i] = v; break;
    }
}
static uint64_t el_load(const void* base, uint32_t i, uint32_t esize)
{
    switch (esize) {
    case 1: return ((const uint8_t*)base)[i];
    case 2: return ((const uint16_t*)base)[i];
    case 4: return ((const uint32_t*)base)[i];
    default: return ((const uint64_t*)base)[i];
    }
}
static uint64_t emask(uint32_t esize) { return esize >= 8 ? ~(uint64_t)0 : (((uint64_t)1 << (8 * esize)) - 1); }

/* ------------------------------------------------------------------ case generation */
typedef struct {
    uint32_t mode;            /* 0..3 */
    uint32_t static_id;
    uint8_t* path; uint32_t path_len;
    uint32_t dtcode; const vss_dt_t* dt;
    uint64_t* elems; uint32_t nelem;      /* scalars: 1; arrays: n */
    uint8_t* bytes; uint32_t nbytes;      /* strings, string arrays */
    size_t P, D;                          /* encoded sizes */
} vcase_t;

static uint64_t special_pattern(vp_rng_t* r, const vss_dt_t* dt, uint32_t k)
{
    uint64_t m = emask(dt->esize);
    if ((dt->code & 0x7f) == 0x09) {   /* float */
        static const uint32_t f[] = { 0x00000000, 0x80000000, 0x7f800000, 0xff800000, 0x7fc00001, 0x7f800001, 0x00000001, 0x3f800000, 0xc2f6e979 };
        if (k < 9) return f[k];
    }
    if ((dt->code & 0x7f) == 0x0A) {   /* double */
        static const uint64_t d[] = { 0, 0x8000000000000000ull, 0x7ff0000000000000ull, 0xfff0000000000000ull, 0x7ff8000000000001ull, 0x7ff0000000000001ull, 1, 0x3ff0000000000000ull, 0xc05edd2f1a9fbe77ull };
        if (k < 9) return d[k];
    }
    switch (k % 8) {
    case 0: return 0;
    case 1: return m;
    case 2: return m ^ (m >> 1);                  /* msb only */
    case 3: return m >> 1;
    case 4: return 0x0102030405060708ull & m;     /* byte-lane markers */
    case 5: return 0x8091a2b3c4d5e6f7ull & m;
    default: return vp_rng_next(r) & m;
    }
}

static uint32_t len_class(vp_rng_t* r, uint32_t k, uint32_t max)
{
    uint32_t v;
    switch (k % 15) {
    /* exact powers of two and their small multiples (block sizes of chunked copy / conversion loops), and their neighbours */
    case 12: v = (uint32_t)1 << (4 + vp_rng_below(r, 12)); break;
    case 13: { uint32_t b = (uint32_t)1 << (4 + vp_rng_below(r, 12)); v = (vp_rng_next(r) & 1) ? b + 1 : b - 1; break; }
    case 14: { static const uint32_t mm[] = { 2, 3, 5, 6, 7 }; v = mm[vp_rng_below(r, 5)] << (5 + vp_rng_below(r, 9)); break; }
    case 0: v = 0; break;
    case 1: v = 1; break;
    case 2: v = 2; break;
    case 3: v = 3; break;
    case 4: v = 13; break;
    case 5: v = 255; break;
    case 6: v = 256; break;
    case 7: v = 257; break;
    case 8: v = (uint32_t)vp_rng_below(r, 40); break;
    case 9: v = (uint32_t)vp_rng_below(r, 600); break;
    case 10: v = (uint32_t)vp_rng_below(r, 5000); break;
    default: v = (vp_rng_below(r, 8) == 0) ? max : (uint32_t)vp_rng_below(r, 300); break;
    }
    return v > max ? max : v;
}

static void gen_strarray(vp_rng_t* r, uint32_t k, uint8_t** out, uint32_t* outn)
{
    /* a packed string array built by the reference packer */
    uint32_t n = len_class(r, k, 3000);
    uint8_t* buf = vp_heap(65535 + 8);
    size_t o = 0;
    for (uint32_t i = 0; i < n; i++) {
        uint32_t l = (uint32_t)vp_rng_below(r, (k % 3 == 0) ? 3 : 40);
        if (o + 2 + l > 65535) break;
        vssref_put_be(buf + o, 2, l);
        vp_rng_fill(r, buf + o + 2, l);
        o += 2 + l;
    }
    *out = buf; *outn = (uint32_t)o;
}

static void gen_case(vp_rng_t* r, uint64_t idx, vcase_t* v, int wellformed)
{
    memset(v, 0, sizeof *v);
    /* datatype: every one of the 256 codes in turn, address mode cycles underneath */
    v->dtcode = (uint32_t)(idx % 256);
    if (wellformed) {
        static const uint8_t defined[24] = { 0,1,2,3,4,5,6,7,8,9,10,11,0x80,0x81,0x82,0x83,0x84,0x85,0x86,0x87,0x88,0x89,0x8A,0x8B };
        v->dtcode = defined[idx % 24];
        v->mode = (uint32_t)((idx / 24) % 2);
    } else {
        /* reserved codes are cheap: visit them once per 4 rounds, defined codes every round */
        v->mode = (uint32_t)((idx / 256) % 4);
        if (vssref_datatype(v->dtcode)->kind == VK_RESERVED && ((idx / 256) % 4) != ((idx / 1024) % 4)) {
            static const uint8_t defined[24] = { 0,1,2,3,4,5,6,7,8,9,10,11,0x80,0x81,0x82,0x83,0x84,0x85,0x86,0x87,0x88,0x89,0x8A,0x8B };
            v->dtcode = defined[(idx / 3) % 24];
        }
    }
    v->dt = vssref_datatype(v->dtcode);
    uint64_t k = idx / 24 + idx / 7;
    static const uint32_t ids[] = { 0, 1, 0xffffffffu, 0x80000000u, 0x01020304u };
    v->static_id = (k % 7 < 5) ? ids[k % 7] : (uint32_t)vp_rng_next(r);
    uint32_t pl;
    if (k % 97 == 96) pl = 65533; else if (k % 5 == 0) pl = (uint32_t)(k % 16); else pl = len_class(r, (uint32_t)k, 1200);
    v->path_len = pl;
    v->path = ralloc(pl, KRES(pl, 14, 1));       /* exact-extent source */
    vp_rng_fill(r, v->path, pl);
    if (pl > 3) { v->path[0] = 'V'; v->path[1] = 0x00; v->path[2] = 0xE2; }
    switch (v->dt->kind) {
    case VK_SCALAR:
        v->nelem = 1; v->elems = (uint64_t*)vp_heap(8);
        v->elems[0] = special_pattern(r, v->dt, (uint32_t)(idx / 256 + idx / 24));
        break;
    case VK_ARRAY: {
        uint32_t maxn = 65535 / v->dt->esize;
        uint32_t n = len_class(r, (uint32_t)(idx / 24 + idx / 5), maxn);
        v->nelem = n; v->elems = (uint64_t*)vp_heap((size_t)n * 8 + 8);
        for (uint32_t i = 0; i < n; i++) v->elems[i] = special_pattern(r, v->dt, i + (uint32_t)idx);
        break; }
    case VK_STRING:
        v->nbytes = len_class(r, (uint32_t)(idx / 24 + idx / 3), 65535);
        v->bytes = vp_heap(v->nbytes);
        vp_rng_fill(r, v->bytes, v->nbytes);
        break;
    case VK_STRARRAY:
        gen_strarray(r, (uint32_t)(idx / 24), &v->bytes, &v->nbytes);
        break;
    default:
        /* reserved datatype: give the encoder something plausible to (not) write */
        v->nelem = 1; v->elems = (uint64_t*)vp_heap(8); v->elems[0] = vp_rng_next(r);
        break;
    }
    v->P = v->mode == 1 ? 4 : (v->mode == 0 ? 2 + (size_t)pl : 0);
    switch (v->dt->kind) {
    case VK_SCALAR: v->D = v->dt->esize; break;
    case VK_ARRAY: v->D = 2 + (size_t)v->nelem * v->dt->esize; break;
    case VK_STRING: case VK_STRARRAY: v->D = 2 + (size_t)v->nbytes; break;
    default: v->D = 0; break;
    }
}

static void free_case(vcase_t* v)
{
    if (v->path) rfree(v->path, KRES(v->path_len, 14, 1));
    if (v->elems) vp_heap_free((uint8_t*)v->elems);
    if (v->bytes) vp_heap_free(v->bytes);
}

/* host-representation source buffer for array/string data handed to the encoder */
static uint8_t* host_data(const vcase_t* v, size_t* nbytes)
{
    if (v->dt->kind == VK_ARRAY) {
        size_t n = (size_t)v->nelem * v->dt->esize;
        g_src_kk = KRES(n / v->dt->esize, 14 + v->P, v->dt->esize);
        uint8_t* b = ralloc(n, g_src_kk);
        for (uint32_t i = 0; i < v->nelem; i++) el_store(b, i, v->dt->esize, v->elems[i]);
        *nbytes = n; return b;
    }
    g_src_kk = KRES(v->nbytes, 14 + v->P, 1);
    uint8_t* b = ralloc(v->nbytes, g_src_kk);
    memcpy(b, v->bytes, v->nbytes);
    *nbytes = v->nbytes; return b;
}

/* fill a VssData_t (in the object arena, mem and shadow identically) for the encoder */
static uint8_t* setup_encode_value(const vcase_t* v)
{
    VssData_t* d = (VssData_t*)(O.mem + O_DATA);
    uint8_t* src = 0;
    if (v->dt->kind == VK_SCALAR || v->dt->kind == VK_RESERVED) {
        uint64_t x = v->elems[0];
        switch (v->dt->kind == VK_RESERVED ? 8 : v->dt->esize) {
        case 1: d->data_uint8 = (uint8_t)x; break;
        case 2: d->data_uint16 = (uint16_t)x; break;
        case 4: d->data_uint32 = (uint32_t)x; break;
        default: d->data_uint64 = x; break;
        }
    } else {
        size_t n;
        src = host_data(v, &n);
        VssDataUint8Array_t* st = (VssDataUint8Array_t*)(O.mem + O_STRUCT);
        st->data_length = (uint16_t)n;
        st->data = (n == 0 && g_nullempty && (v->path_len & 1)) ? 0 : src;
        d->data_uint8_array = st;
    }
    memcpy(O.shadow, O.mem, OBJ_SZ);
    return src;
}

static void sample_case(vp_ctx_t* c, const char* op, const vcase_t* v, const uint8_t* msg, size_t total)
{
    if (!g_samples) return;
    g_samples--;
    c->outn = 0;
    o_s(c, "X|{\"op\":\""); o_s(c, op); o_s(c, "\",\"addr_mode\":"); o_u(c, v->mode); o_s(c, ",\"datatype\":\""); o_s(c, v->dt->name);
    o_s(c, "\",\"code\":"); o_u(c, v->dtcode); o_s(c, ",\"path_len\":"); o_u(c, v->mode == 1 ? 4 : v->path_len); o_s(c, ",\"elements\":"); o_u(c, v->nelem);
    o_s(c, ",\"value_bytes\":"); o_u(c, v->D); o_s(c, ",\"message_prefix\":\""); o_hex(c, msg, total > 48 ? 48 : total); o_s(c, "\"}"); o_end(c);
}

/* ================================================================== encode (C07) */
static void do_encode_case(vp_ctx_t* c, uint64_t idx)
{
    vcase_t v; msg_t m;
    gen_case(&c->rng, idx, &v, 0);
    size_t total = HDR + v.P + v.D;
    msg_select(&m, total);
    const char* dtn = v.dt->name;
    vp_rng_fill(&c->rng, m.p, HDR); memcpy(m.s, m.p, HDR);    /* prior header independent of the placement */
    /* header fields through the library's writers, judged by the bit-field model */
    bf_set(m.s, POS_MODE, 2, v.mode); bf_set(m.s, POS_DT, 8, v.dtcode);
    vp_curop("vss-encode-header", dtn, "", idx);
    vp_call(c);
    if (idx & 1) { Avtp_Vss_SetAddrMode((Avtp_Vss_t*)m.p, (Vss_AddrMode_t)v.mode); Avtp_Vss_SetDatatype((Avtp_Vss_t*)m.p, (Vss_Datatype_t)v.dtcode); }
    else { Avtp_Vss_SetField((Avtp_Vss_t*)m.p, AVTP_VSS_FIELD_ADDR_MODE, v.mode); Avtp_Vss_SetField((Avtp_Vss_t*)m.p, AVTP_VSS_FIELD_VSS_DATATYPE, v.dtcode); }
    check_msg(c, &m, "encode", "header-fields", dtn, 0, 0);
    /* path */
    VssPath_t* pth = (VssPath_t*)(O.mem + O_PATH);
    if (v.mode == 1) pth->vss_static_id_path = v.static_id;
    else { pth->vss_interop_path.path_length = (uint16_t)v.path_len; pth->vss_interop_path.path = (v.path_len == 0 && g_nullempty && (idx & 4)) ? 0 : (char*)v.path; }
    memcpy(O.shadow, O.mem, OBJ_SZ);
    vssref_encode_path(m.s + HDR, v.mode, v.static_id, v.path, v.path_len);
    vp_curop("vss-set-path", v.mode == 1 ? "static" : v.mode == 0 ? "interop" : "reserved-mode", dtn, v.path_len);
    vp_call(c);
    Avtp_Vss_SetVssPath((Avtp_Vss_t*)m.p, pth);
    vp_tr_bytes(c, m.p, HDR + (v.P > 64 ? 64 : v.P));
    check_msg(c, &m, "encode", v.mode == 1 ? "path-static" : v.mode == 0 ? "path-interop" : "path-reserved-mode", dtn, v.P, 0);
    check_obj(c, "encode", "set-path", dtn, "source-object");
    /* value (placement of a value under a reserved address mode is unspecified: not exercised) */
    if (v.mode <= 1) {
        uint8_t* src = setup_encode_value(&v);
        if (v.dt->kind != VK_RESERVED)
            vssref_encode_value(m.s + HDR + v.P, v.dt, v.elems, v.nelem, v.bytes, v.nbytes);
        vp_curop("vss-set-data", dtn, v.mode ? "static" : "interop", v.D);
        vp_call(c);
        Avtp_Vss_SetVssData((Avtp_Vss_t*)m.p, (VssData_t*)(O.mem + O_DATA));
        vp_tr_bytes(c, m.p + HDR + v.P, v.D > 64 ? 64 : v.D);
        vp_tr_u64(c, v.D);
        int bad = check_msg(c, &m, "encode", v.dt->kind == VK_RESERVED ? "value-reserved-datatype" : "value", dtn, v.P, v.D);
        check_obj(c, "encode", "set-data", dtn, "source-object");
        if (!bad && v.D > 0) g_nontrivial++;
        /* finalising the message just built (and the same message followed by 1..2 application bytes): Avtp_Vss_Pad sees a
         * real, consistent message - datatype, path and value lengths that add up - not only random bytes (C09) */
        if (v.dt->kind != VK_RESERVED) for (uint32_t extra = 0; extra < 3; extra++) {
            size_t pn = total + extra;
            if (pn < 12 || pn > 2044) break;
            uint32_t ppad = (uint32_t)((4 - pn % 4) % 4);
            vp_rng_fill(&c->rng, m.p + total, extra + ppad + 8);
            for (size_t q = 0; q < extra + ppad; q++) if (m.p[total + q] == 0) m.p[total + q] = 0x5C;      /* dirty, so that a missing or misplaced clear shows */
            memcpy(m.s + total, m.p + total, extra + ppad + 8);
            bf_set(m.s, POS_LEN, 9, (pn + ppad) / 4); bf_set(m.s, POS_PAD, 2, ppad); memset(m.s + pn, 0, ppad);
            vp_curop("vss-pad-after-encode", dtn, "", pn);
            vp_call(c);
            Avtp_Vss_Pad((Avtp_Vss_t*)m.p, (uint16_t)pn);
            check_msg(c, &m, "encode", "pad-after-encode", dtn, v.P, v.D);
        }
        /* the caller's value is an input: its bytes must be what they were (an encoder that converts the caller's array
         * in place - even if it converts it back afterwards on most paths - shows here), and encoding the same object a
         * second time must give the same message */
        if (src && v.dt->kind != VK_RESERVED) {
            size_t sn = v.dt->kind == VK_ARRAY ? (size_t)v.nelem * v.dt->esize : v.nbytes;
            int changed = 0; size_t at = 0;
            if (v.dt->kind == VK_ARRAY) { for (uint32_t i = 0; i < v.nelem && !changed; i++) if (el_load(src, i, v.dt->esize) != (v.elems[i] & emask(v.dt->esize))) { changed = 1; at = (size_t)i * v.dt->esize; } }
            else { for (size_t i = 0; i < sn && !changed; i++) if (src[i] != v.bytes[i]) { changed = 1; at = i; } }
            c->evals++;
            if (changed && vp_viol(c, "encode", "set-data", dtn, "source-data-modified", 0, 0)) {
                o_s(c, "{\"datatype\":\""); o_s(c, dtn); o_s(c, "\",\"source_bytes\":"); o_u(c, sn); o_s(c, ",\"first_changed_offset\":"); o_u(c, at); o_s(c, "}"); o_end(c);
            }
            if (!changed) {
                vp_curop("vss-set-data-again", dtn, v.mode ? "static" : "interop", v.D);
                vp_call(c);
                Avtp_Vss_SetVssData((Avtp_Vss_t*)m.p, (VssData_t*)(O.mem + O_DATA));
                check_msg(c, &m, "encode", "value-second-encode-of-same-object", dtn, v.P, v.D);
                check_obj(c, "encode", "set-data-again", dtn, "source-object");
            }
        }
        if (!bad && (idx % 37) == 5) sample_case(c, "encode", &v, m.p, total);
        if (src) rfree(src, g_src_kk);
    } else g_nontrivial++;
    free_case(&v);
}

/* ================================================================== decode (C08) */
static void viol_decode(vp_ctx_t* c, const char* what, const vcase_t* v, const char* phase, const char* kind, uint64_t exp, uint64_t got, uint64_t index)
{
    if (vp_viol(c, "decode", what, v->dt->name, phase, kind, 0)) {
        o_s(c, "{\"addr_mode\":"); o_u(c, v->mode); o_s(c, ",\"path_len\":"); o_u(c, v->path_len); o_s(c, ",\"elements\":"); o_u(c, v->nelem);
        o_s(c, ",\"value_bytes\":"); o_u(c, v->D); o_s(c, ",\"index\":"); o_u(c, index);
        o_s(c, ",\"expected\":\""); o_x(c, exp); o_s(c, "\",\"got\":\""); o_x(c, got); o_s(c, "\",\"place\":"); o_u(c, g_place); o_s(c, "}"); o_end(c);
    }
}

static void decode_from(vp_ctx_t* c, const vcase_t* v, uint8_t* pdu, const char* src_kind)
{
    const char* dtn = v->dt->name;
    (void)dtn;
    /* path size */
    vp_curop("vss-calc-path-len", src_kind, dtn, v->path_len);
    vp_call(c);
    uint16_t pl = Avtp_Vss_CalcVssPathLength((Avtp_Vss_t*)pdu);
    c->evals++;
    vp_tr_u64(c, pl);
    if (pl != (uint16_t)v->P) viol_decode(c, "calc-path-length", v, src_kind, "value-mismatch", v->P, pl, 0);
    /* path */
    VssPath_t* pth = (VssPath_t*)(O.mem + O_PATH); VssPath_t* spth = (VssPath_t*)(O.shadow + O_PATH);
    memset(O.mem + O_PATH, 0xEE, sizeof(VssPath_t)); memset(O.shadow + O_PATH, 0xEE, sizeof(VssPath_t));
    uint8_t* pdst = 0;
    if (v->mode == 0) {
        pdst = ralloc(v->path_len, KRES(v->path_len, 14, 1));
        memset(pdst, 0x77, v->path_len);
        pth->vss_interop_path.path = (char*)pdst; spth->vss_interop_path.path = (char*)pdst;
        spth->vss_interop_path.path_length = (uint16_t)v->path_len;
    } else spth->vss_static_id_path = v->static_id;
    vp_curop("vss-get-path", src_kind, dtn, v->path_len);
    vp_call(c);
    Avtp_Vss_GetVssPath((Avtp_Vss_t*)pdu, pth);
    check_obj(c, "decode", "get-path", v->mode ? "static" : "interop", src_kind);
    if (v->mode == 0) {
        c->evals++;
        vp_tr_bytes(c, pdst, v->path_len > 64 ? 64 : v->path_len);
        if (memcmp(pdst, v->path, v->path_len) != 0) viol_decode(c, "get-path", v, src_kind, "path-bytes-differ", 0, 0, 0);
        if (!blk_ok(pdst, v->path_len)) viol_decode(c, "get-path", v, src_kind, "wrote-beyond-destination", 0, 0, 0);
        rfree(pdst, KRES(v->path_len, 14, 1));
    } else vp_tr_u64(c, pth->vss_static_id_path);
    /* value */
    VssData_t* d = (VssData_t*)(O.mem + O_DATA); VssData_t* sd = (VssData_t*)(O.shadow + O_DATA);
    memset(O.mem + O_DATA, 0xDD, sizeof(VssData_t)); memset(O.shadow + O_DATA, 0xDD, sizeof(VssData_t));
    if (v->dt->kind == VK_SCALAR) {
        uint64_t x = v->elems[0];
        switch (v->dt->esize) {
        case 1: sd->data_uint8 = (uint8_t)x; break;
        case 2: sd->data_uint16 = (uint16_t)x; break;
        case 4: sd->data_uint32 = (uint32_t)x; break;
        default: sd->data_uint64 = x; break;
        }
        vp_curop("vss-get-data", src_kind, dtn, 0);
        vp_call(c);
        Avtp_Vss_GetVssData((Avtp_Vss_t*)pdu, d);
        uint64_t got;
        switch (v->dt->esize) {
        case 1: got = d->data_uint8; break;
        case 2: got = d->data_uint16; break;
        case 4: got = d->data_uint32; break;
        default: got = d->data_uint64; break;
        }
        c->evals++;
        vp_tr_u64(c, got);
        if (got != (x & emask(v->dt->esize))) viol_decode(c, "get-data", v, src_kind, "value-mismatch", x, got, 0);
        check_obj(c, "decode", "get-data", dtn, src_kind);
        return;
    }
    /* variable-length: two-call protocol */
    size_t nbytes = v->dt->kind == VK_ARRAY ? (size_t)v->nelem * v->dt->esize : v->nbytes;
    VssDataUint8Array_t* st = (VssDataUint8Array_t*)(O.mem + O_STRUCT); VssDataUint8Array_t* sst = (VssDataUint8Array_t*)(O.shadow + O_STRUCT);
    memset(O.mem + O_STRUCT, 0xBB, sizeof *st); memset(O.shadow + O_STRUCT, 0xBB, sizeof *st);
    d->data_uint8_array = st; sd->data_uint8_array = st;
    st->data = 0; sst->data = 0;
    st->data_length = 0xBEEF; sst->data_length = (uint16_t)nbytes;
    vp_curop("vss-get-data-len", src_kind, dtn, nbytes);
    vp_call(c);
    Avtp_Vss_GetVssData((Avtp_Vss_t*)pdu, d);
    c->evals++;
    vp_tr_u64(c, st->data_length);
    if (st->data_length != (uint16_t)nbytes) viol_decode(c, "get-data", v, "length-query", "length-mismatch", nbytes, st->data_length, 0);
    check_obj(c, "decode", "get-data", dtn, "length-query");
    /* phase 2 */
    uint32_t dkk = KRES(nbytes / (v->dt->kind == VK_ARRAY ? v->dt->esize : 1), 14 + v->P, v->dt->kind == VK_ARRAY ? v->dt->esize : 1);
    uint8_t* dst = ralloc(nbytes, dkk);
    memset(dst, 0x66, nbytes);
    st->data = dst; sst->data = dst;
    st->data_length = 0xBEEF; sst->data_length = (uint16_t)nbytes;
    vp_curop("vss-get-data-copy", src_kind, dtn, nbytes);
    vp_call(c);
    Avtp_Vss_GetVssData((Avtp_Vss_t*)pdu, d);
    check_obj(c, "decode", "get-data", dtn, "copy");
    c->evals++;
    if (st->data_length != (uint16_t)nbytes) viol_decode(c, "get-data", v, "copy", "length-mismatch", nbytes, st->data_length, 0);
    if (v->dt->kind == VK_ARRAY) {
        for (uint32_t i = 0; i < v->nelem; i++) {
            uint64_t got = el_load(dst, i, v->dt->esize);
            if (got != (v->elems[i] & emask(v->dt->esize))) { viol_decode(c, "get-data", v, "copy", "element-mismatch", v->elems[i], got, i); break; }
        }
        for (uint32_t i = 0; i < v->nelem && i < 12; i++) vp_tr_u64(c, el_load(dst, i, v->dt->esize));   /* logical values: host images differ by byte order */
    } else {
        if (memcmp(dst, v->bytes, nbytes) != 0) viol_decode(c, "get-data", v, "copy", "bytes-differ", 0, 0, 0);
        vp_tr_bytes(c, dst, nbytes > 64 ? 64 : nbytes);
    }
    if (!blk_ok(dst, nbytes)) viol_decode(c, "get-data", v, "copy", "wrote-beyond-destination", 0, 0, 0);
    /* a decoded string array is consumed through the count/unpack helpers: elements must come back bit-exact */
    if (v->dt->kind == VK_STRARRAY && nbytes <= 4096) {
        uint32_t n = 0; size_t o = 0;
        static uint16_t rl[2100]; static size_t ro[2100];
        while (o + 2 <= nbytes && n < 2100) { rl[n] = (uint16_t)vssref_be(v->bytes + o, 2); ro[n] = o + 2; o += 2 + (size_t)rl[n]; n++; }
        VssDataStringArray_t* arr = (VssDataStringArray_t*)st;
        vp_call(c);
        uint64_t cnt = Avtp_Vss_GetVSSDataStringArrayLength(arr);
        c->evals++;
        vp_tr_u64(c, cnt);
        if (cnt != n) viol_decode(c, "string-array-count", v, "after-decode", n && rl[n - 1] == 0 ? "count-mismatch-empty-last" : "count-mismatch", n, cnt, 0);
        VssDataString_t** sp = (VssDataString_t**)(O.mem + O_STRS);
        VssDataString_t* so = (VssDataString_t*)(O.mem + O_STRS + (MAXSTR + 64) * sizeof(void*));
        static uint8_t* dd[2100];
        for (int phase = 0; phase < 2; phase++) {
            for (uint32_t i = 0; i < n; i++) {
                sp[i] = &so[i]; so[i].data_length = 0xABCD;
                if (phase) { dd[i] = blk_alloc(rl[i]); memset(dd[i], 0x22, rl[i]); so[i].data = (char*)dd[i]; } else so[i].data = 0;
            }
            vp_call(c);
            Avtp_Vss_DeserializeStringArray(arr, sp, (uint16_t)n);
            for (uint32_t i = 0; i < n; i++) {
                c->evals++;
                if (so[i].data_length != rl[i]) { viol_decode(c, "string-array-unpack", v, phase ? "copy" : "lengths-only", i + 1 == n && rl[i] == 0 ? "length-mismatch-empty-last" : "length-mismatch", rl[i], so[i].data_length, i); break; }
                if (phase && memcmp(dd[i], v->bytes + ro[i], rl[i]) != 0) { viol_decode(c, "string-array-unpack", v, "copy", "string-bytes-differ", 0, 0, i); break; }
            }
            if (phase) for (uint32_t i = 0; i < n; i++) { if (!blk_ok(dd[i], rl[i])) viol_decode(c, "string-array-unpack", v, "copy", "wrote-beyond-destination", 0, 0, i); vp_heap_free(dd[i]); }
        }
        vp_arena_resync(&O);
    }
    rfree(dst, dkk);
}

static void do_decode_case(vp_ctx_t* c, uint64_t idx)
{
    vcase_t v; msg_t m;
    gen_case(&c->rng, idx, &v, 1);
    size_t total = HDR + v.P + v.D;
    /* reference-encoded message */
    uint8_t* ref = vp_heap(total);
    vp_rng_fill(&c->rng, ref, HDR);
    bf_set(ref, 0, 7, 0x42); bf_set(ref, POS_MODE, 2, v.mode); bf_set(ref, POS_DT, 8, v.dtcode);
    vssref_encode_path(ref + HDR, v.mode, v.static_id, v.path, v.path_len);
    vssref_encode_value(ref + HDR + v.P, v.dt, v.elems, v.nelem, v.bytes, v.nbytes);
    /* (a) exact-extent heap block: reads beyond the message trap under ASan */
    decode_from(c, &v, ref, "reference-encoded/exact-heap");
    /* (b) inside the arena at the configured placement: decoding must not modify the message */
    msg_select(&m, total);
    memcpy(m.p, ref, total); memcpy(m.s, ref, total);
    decode_from(c, &v, m.p, "reference-encoded/arena");
    check_msg(c, &m, "decode", "message-modified", v.dt->name, v.P, v.D);
    /* (b2) a received message in read-only memory: a decoder that stores into the message - even temporarily, even the same
     * bytes - faults there (and would race with other readers of a shared frame) */
    if ((idx % 3) == 1) {
        static uint8_t* ropage;
        size_t rosz = 139264;
        if (!ropage) ropage = vp_map(rosz);
        size_t ro = 4096 + g_place + (size_t)(idx % 5);
        vp_readonly(ropage, rosz, 0);
        memcpy(ropage + ro, ref, total);
        vp_readonly(ropage, rosz, 1);
        vp_curop("vss-decode-read-only-message", v.dt->name, "", total);
        decode_from(c, &v, ropage + ro, "reference-encoded/read-only-page");
        vp_readonly(ropage, rosz, 0);
    }
    /* (c) library-encoded message: round trip */
    if ((idx & 3) == 0) {
        VssPath_t* pth = (VssPath_t*)(O.mem + O_PATH);
        vp_call(c);
        Avtp_Vss_Init((Avtp_Vss_t*)m.p);
        Avtp_Vss_SetAddrMode((Avtp_Vss_t*)m.p, (Vss_AddrMode_t)v.mode); Avtp_Vss_SetDatatype((Avtp_Vss_t*)m.p, (Vss_Datatype_t)v.dtcode);
        if (v.mode == 1) pth->vss_static_id_path = v.static_id;
        else { pth->vss_interop_path.path_length = (uint16_t)v.path_len; pth->vss_interop_path.path = (char*)v.path; }
        Avtp_Vss_SetVssPath((Avtp_Vss_t*)m.p, pth);
        uint8_t* src = setup_encode_value(&v);
        Avtp_Vss_SetVssData((Avtp_Vss_t*)m.p, (VssData_t*)(O.mem + O_DATA));
        vp_arena_resync(m.a); vp_arena_resync(&O);
        decode_from(c, &v, m.p, "library-encoded/arena");
        if (src) rfree(src, g_src_kk);
    }
    g_nontrivial++;
    if ((idx % 41) == 3) sample_case(c, "decode", &v, ref, total);
    vp_heap_free(ref);
    free_case(&v);
}

/* ================================================================== pad (C09) */
typedef struct { uint8_t* p; uint32_t n; } padcall_t;
static void pad_thunk(void* a) { padcall_t* k = (padcall_t*)a; Avtp_Vss_Pad((Avtp_Vss_t*)k->p, (uint16_t)k->n); }

/* the message in a buffer of exactly the padded size, directly in front of an inaccessible page: finalisation may touch the
 * pad bytes and the header, nothing behind them - not even to write back what it read */
static void pad_exact(vp_ctx_t* c, uint32_t n)
{
    uint32_t pad = (4 - n % 4) % 4;
    uint8_t* g = vp_guard_end(n + pad);
    uint8_t exp[2048 + 8];
    vp_rng_fill(&c->rng, g, n + pad);
    memcpy(exp, g, n + pad);
    bf_set(exp, POS_LEN, 9, (n + pad) / 4); bf_set(exp, POS_PAD, 2, pad); memset(exp + n, 0, pad);
    padcall_t k = { g, n };
    vp_curop("vss-pad-exact", "", "", n);
    vp_call(c);
    int sig = vp_try(pad_thunk, &k);
    c->evals++;
    char res[2] = { (char)('0' + n % 4), 0 };
    if (sig) { if (vp_viol(c, "pad", "exact-size-buffer", "fault-behind-the-padded-message", "len%4=", res, 0)) { o_s(c, "{\"length\":"); o_u(c, n); o_s(c, ",\"signal\":"); o_u(c, (uint64_t)sig); o_s(c, "}"); o_end(c); } }
    else if (memcmp(g, exp, n + pad) != 0 && vp_viol(c, "pad", "exact-size-buffer", "bytes-differ", "len%4=", res, 0)) { o_s(c, "{\"length\":"); o_u(c, n); o_s(c, "}"); o_end(c); }
    vp_guard_free(g, n + pad);
    if (!g_canary) {     /* ASan build: the same in an exact-size heap block (red zone behind it) */
        uint8_t* h = vp_heap(n + pad);
        memcpy(h, exp, n + pad); vp_rng_fill(&c->rng, h + n, pad); h[0] ^= 0;
        vp_call(c);
        Avtp_Vss_Pad((Avtp_Vss_t*)h, (uint16_t)n);
        c->evals++;
        if (memcmp(h, exp, n + pad) != 0 && vp_viol(c, "pad", "exact-size-heap-block", "bytes-differ", "len%4=", res, 0)) { o_s(c, "{\"length\":"); o_u(c, n); o_s(c, "}"); o_end(c); }
        vp_heap_free(h);
    }
}

/* messages at a 4 GiB address boundary: address arithmetic done in 32 bits (a wrap check, a cursor, an alignment mask) goes
 * wrong only where the message or its pad bytes touch or cross a multiple of 2^32 */
static void pad_boundary(vp_ctx_t* c)
{
    static const uint64_t ks[] = { 0x7101, 0x7211, 0x6f01, 0x7346, 0x1235 };
    uint8_t* pg = 0;
    for (unsigned i = 0; i < 5 && !pg; i++) pg = vp_map_at((ks[i] << 32) - 8192, 16384);
    if (!pg) { vp_stat(c, "boundary.unavailable", 1); return; }
    uint8_t* B = pg + 8192;
    static uint8_t exp[16384];
    uint64_t placed = 0;
    for (uint32_t n = 12; n <= 2044; n++) {
        uint32_t pad = (4 - n % 4) % 4;
        /* start positions: padded message ends at B; every way the pad bytes can straddle B; message starts at B; B in the middle */
        int64_t starts[8] = { -(int64_t)(n + pad), -(int64_t)n, -(int64_t)n - 1, -(int64_t)n - 2, -(int64_t)(n + pad) + 1, 0, -(int64_t)(n / 2), 4096 - (int64_t)(n + pad) };
        for (int si = 0; si < 8; si++) {
            uint8_t* p = B + starts[si];
            vp_rng_fill(&c->rng, pg, 16384);
            for (uint32_t q = 0; q < pad; q++) if (p[n + q] == 0) p[n + q] = 0x5C;       /* dirty pad bytes */
            memcpy(exp, pg, 16384);
            uint8_t* e = exp + (p - pg);
            bf_set(e, POS_LEN, 9, (n + pad) / 4); bf_set(e, POS_PAD, 2, pad); memset(e + n, 0, pad);
            padcall_t k = { p, n };
            vp_curop("vss-pad-4GiB-boundary", "", "", n);
            vp_call(c);
            int sig = vp_try(pad_thunk, &k);
            c->evals++; placed++;
            char res[2] = { (char)('0' + n % 4), 0 };
            if (sig) { if (vp_viol(c, "pad", "message-at-4GiB-address-boundary", "fault", "len%4=", res, 0)) { o_s(c, "{\"length\":"); o_u(c, n); o_s(c, ",\"signal\":"); o_u(c, (uint64_t)sig); o_s(c, "}"); o_end(c); } }
            else if (memcmp(pg, exp, 16384) != 0 && vp_viol(c, "pad", "message-at-4GiB-address-boundary", "bytes-differ", "len%4=", res, 0)) {
                o_s(c, "{\"length\":"); o_u(c, n); o_s(c, ",\"start_relative_to_boundary\":\""); if (starts[si] < 0) { o_s(c, "-"); o_u(c, (uint64_t)(-starts[si])); } else o_u(c, (uint64_t)starts[si]); o_s(c, "\"}"); o_end(c);
            }
        }
    }
    vp_stat(c, "boundary.pad_placements", placed);
}

static void pad_one(vp_ctx_t* c, uint32_t n, uint64_t r)
{
    msg_t m;
    m.a = &A_big; m.p = A_big.mem + PDU_BASE + g_place; m.s = A_big.shadow + PDU_BASE + g_place;
    uint32_t pad = (4 - n % 4) % 4;
    /* prior contents of message, pad bytes and what follows */
    if (r == 0) { memset(m.p, 0xff, n + 8); }
    else if (r == 1) { memset(m.p, 0x00, n); memset(m.p + n, 0xff, 8); }
    else vp_rng_fill(&c->rng, m.p, n + 8);
    if (r == 2 || r == 3) {
        /* a reused buffer that was finalised before: the header already holds the target length and pad, the first pad
         * byte is already zero, later pad bytes are dirty (r == 3: length field holds the value of the previous size) */
        bf_set(m.p, POS_LEN, 9, (n + pad) / 4 - (r == 3 ? 1 : 0)); bf_set(m.p, POS_PAD, 2, pad);
        m.p[n] = 0; m.p[n + 1] = 0xEE; m.p[n + 2] = 0x07; m.p[n + 3] = 0x5A;
    }
    memcpy(m.s, m.p, n + 8);
    uint8_t before[HDR]; memcpy(before, m.p, HDR);
    bf_set(m.s, POS_LEN, 9, (n + pad) / 4);
    bf_set(m.s, POS_PAD, 2, pad);
    memset(m.s + n, 0, pad);
    vp_curop("vss-pad", "", "", n);
    vp_call(c);
    Avtp_Vss_Pad((Avtp_Vss_t*)m.p, (uint16_t)n);
    vp_tr_bytes(c, m.p, HDR); vp_tr_bytes(c, m.p + n - 2, 6);
    size_t off, cnt, last;
    c->evals++;
    if (vp_arena_diff(c, m.a, &off, &cnt, &last)) {
        size_t base = (size_t)(m.p - m.a->mem);
        const char* reg = off < base ? "stray-write-before" : off - base < HDR ? "header-fields" : off - base < n ? "message-body" :
                          off - base < n + pad ? "pad-bytes" : "beyond-pad";
        char res[2] = { (char)('0' + n % 4), 0 };
        if (vp_viol(c, "pad", reg, "len%4=", res, 0, 0)) {
            o_s(c, "{\"length\":"); o_u(c, n); o_s(c, ",\"first_off\":"); if (off >= base) o_u(c, off - base); else { o_s(c, "-"); o_u(c, base - off); }
            o_s(c, ",\"last_off\":"); if (last >= base) o_u(c, last - base); else o_u(c, 0); o_s(c, ",\"nbytes\":"); o_u(c, cnt);
            o_s(c, ",\"header_before\":\""); o_hex(c, before, HDR); o_s(c, "\",\"header_expected\":\""); o_hex(c, m.s, HDR); o_s(c, "\",\"header_actual\":\""); o_hex(c, m.p, HDR);
            o_s(c, "\",\"tail_expected\":\""); o_hex(c, m.s + n - 2, 8); o_s(c, "\",\"tail_actual\":\""); o_hex(c, m.p + n - 2, 8); o_s(c, "\"}"); o_end(c);
        }
        vp_arena_resync(m.a);
    }
    if (r == 0) g_nontrivial++;
    if (g_samples && r == 2 && n % 511 == 17) {
        g_samples--; c->outn = 0;
        o_s(c, "X|{\"op\":\"pad\",\"length\":"); o_u(c, n); o_s(c, ",\"header_before\":\""); o_hex(c, before, 4); o_s(c, "\",\"header_after\":\""); o_hex(c, m.p, 4);
        o_s(c, "\",\"tail_after\":\""); o_hex(c, m.p + n - 2, 8); o_s(c, "\"}"); o_end(c);
    }

}

static void do_pad(vp_ctx_t* c, uint64_t reps)
{
    msg_t m;
    for (uint32_t n = 12; n <= 2044; n++) pad_exact(c, n);
    pad_boundary(c);
    for (uint32_t n = 12; n <= 2044; n++)
        for (uint64_t r = 0; r < reps; r++) pad_one(c, n, r);
    /* all 512 values of the length field through the dedicated accessors vs the generic ones */
    m.a = &A_small; m.p = A_small.mem + PDU_BASE + g_place; m.s = A_small.shadow + PDU_BASE + g_place;
    for (uint32_t L = 0; L < 512; L++) {
        for (uint32_t r = 0; r < 3; r++) {
            if (r == 0) memset(m.p, 0, HDR); else if (r == 1) memset(m.p, 0xff, HDR); else vp_rng_fill(&c->rng, m.p, HDR);
            memcpy(m.s, m.p, HDR);
            bf_set(m.s, POS_LEN, 9, L);
            vp_call(c);
            Avtp_Vss_SetAcfMsgLength((Avtp_Vss_t*)m.p, (uint16_t)L);
            check_msg(c, &m, "pad", "length-setter", "dedicated", 0, 0);
            vp_call(c);
            uint64_t g1 = Avtp_Vss_GetAcfMsgLength((Avtp_Vss_t*)m.p);
            vp_call(c);
            uint64_t g2 = Avtp_Vss_GetField((Avtp_Vss_t*)m.p, AVTP_VSS_FIELD_ACF_MSG_LENGTH);
            c->evals++;
            vp_tr_u64(c, g1);
            if ((g1 != L || g2 != L) && vp_viol(c, "pad", "length-getter", "dedicated-vs-generic", 0, 0, 0)) {
                o_s(c, "{\"written\":"); o_u(c, L); o_s(c, ",\"dedicated\":"); o_u(c, g1); o_s(c, ",\"generic\":"); o_u(c, g2); o_s(c, "}"); o_end(c);
            }
            g_nontrivial += (r == 0);
        }
    }
}

/* ================================================================== string arrays (C10) */
static void do_strarr_case(vp_ctx_t* c, uint64_t idx)
{
    vp_rng_t* r = &c->rng;
    /* the list */
    uint32_t n;
    switch (idx % 10) {
    case 0: n = 0; break;
    case 1: n = 1; break;
    case 2: n = 3; break;
    case 3: n = 255; break;
    case 4: n = 256; break;
    case 5: n = 257 + (uint32_t)vp_rng_below(r, 400); break;
    case 6: n = (uint32_t)vp_rng_below(r, MAXSTR); break;
    default: n = (uint32_t)vp_rng_below(r, 24); break;
    }
    static uint16_t lens[MAXSTR]; static uint8_t* strs[MAXSTR];
    size_t total = 0;
    uint32_t lmode = (uint32_t)((idx / 10) % 6);
    for (uint32_t i = 0; i < n; i++) {
        uint32_t l;
        switch (lmode) {
        case 0: l = (uint32_t)vp_rng_below(r, 3); break;
        case 1: l = (uint32_t)vp_rng_below(r, 300); break;
        case 2: l = (i + 1 == n) ? 0 : (uint32_t)vp_rng_below(r, 9); break;   /* empty last string */
        case 3: l = (i == 0 && n < 4) ? 65533 - 2 * (n - 1) : 0; break;         /* one huge string filling the array */
        case 5: l = (i == (n > 2 ? 1u : 0u)) ? 32760 + (uint32_t)vp_rng_below(r, 8000) : (uint32_t)vp_rng_below(r, 6); break;   /* a string longer than 32767 bytes that is not the last one */
        default: l = (uint32_t)vp_rng_below(r, 20); break;
        }
        if (total + 2 + l > 65535) { n = i; break; }
        lens[i] = (uint16_t)l;
        strs[i] = vp_heap(l);
        vp_rng_fill(r, strs[i], l);
        total += 2 + l;
    }
    /* reference packing */
    uint8_t* ref = vp_heap(total);
    vssref_pack_strings(ref, (const uint8_t* const*)strs, lens, n);

    /* --- pack through the library: objects in the object arena, output in an exact block */
    VssDataString_t** sp = (VssDataString_t**)(O.mem + O_STRS);
    VssDataString_t* so = (VssDataString_t*)(O.mem + O_STRS + (MAXSTR + 64) * sizeof(void*));
    uint32_t extra = 8;
    for (uint32_t i = 0; i < n + extra && i < MAXSTR + 8; i++) { sp[i] = &so[i]; }
    for (uint32_t i = 0; i < n; i++) { so[i].data_length = lens[i]; so[i].data = (char*)strs[i]; }
    /* an empty string may also be described by a zero-initialised descriptor (no data pointer at all) */
    if (g_nullempty && ((idx / 3) & 1)) for (uint32_t i = 0; i < n; i++) if (lens[i] == 0 && ((i + idx) & 1)) so[i].data = 0;
    VssDataStringArray_t* arr = (VssDataStringArray_t*)(O.mem + O_STRUCT); VssDataStringArray_t* sarr = (VssDataStringArray_t*)(O.shadow + O_STRUCT);
    size_t poff = (size_t)(idx % 4);                  /* packed arrays live at any byte offset (e.g. inside a VSS message) */
    uint8_t* packed_blk = blk_alloc(total + poff);
    uint8_t* packed = packed_blk + poff;
    memset(packed, 0x3c, total);
    arr->data = packed; arr->data_length = 0x1234;
    memcpy(O.shadow, O.mem, OBJ_SZ);
    sarr->data_length = (uint16_t)total;
    vp_curop("vss-serialize-strings", "", "", n);
    vp_call(c);
    Avtp_Vss_SerializeStringArray(arr, sp, (uint16_t)n);
    c->evals++;
    vp_tr_bytes(c, packed, total > 96 ? 96 : total);
    if (memcmp(packed, ref, total) != 0 && vp_viol(c, "strarr", "serialize", "packed-bytes-differ", 0, 0, 0)) {
        size_t o = 0; while (o < total && packed[o] == ref[o]) o++;
        o_s(c, "{\"strings\":"); o_u(c, n); o_s(c, ",\"total\":"); o_u(c, total); o_s(c, ",\"first_diff\":"); o_u(c, o);
        o_s(c, ",\"expected\":\""); o_hex(c, ref + o, total - o > 12 ? 12 : total - o); o_s(c, "\",\"actual\":\""); o_hex(c, packed + o, total - o > 12 ? 12 : total - o); o_s(c, "\"}"); o_end(c);
    }
    if (!blk_ok(packed_blk, total + poff) && vp_viol(c, "strarr", "serialize", "wrote-beyond-output", 0, 0, 0)) { o_s(c, "{\"strings\":"); o_u(c, n); o_s(c, "}"); o_end(c); }
    check_obj(c, "strarr", "serialize", "objects", n > 255 ? ">255" : "<=255");
    /* the strings handed in are inputs: packing them again with the reference must give the same bytes */
    if (total) {
        uint8_t* ref2 = vp_heap(total);
        vssref_pack_strings(ref2, (const uint8_t* const*)strs, lens, n);
        c->evals++;
        if (memcmp(ref2, ref, total) != 0 && vp_viol(c, "strarr", "serialize", "source-strings-modified", 0, 0, 0)) { o_s(c, "{\"strings\":"); o_u(c, n); o_s(c, "}"); o_end(c); }
        vp_heap_free(ref2);
    }

    /* --- count and unpack the reference-packed array (exact block: over-reads trap under ASan) */
    size_t soff = (size_t)((idx / 4) % 4);
    uint8_t* src_blk = blk_alloc(total + soff);
    uint8_t* src = src_blk + soff;
    memcpy(src, ref, total);
    arr->data = src; arr->data_length = (uint16_t)total;
    memcpy(O.shadow, O.mem, OBJ_SZ);
    vp_curop("vss-count-strings", "", "", n);
    vp_call(c);
    uint64_t cnt = Avtp_Vss_GetVSSDataStringArrayLength(arr);
    c->evals++;
    vp_tr_u64(c, cnt);
    if (cnt != n && vp_viol(c, "strarr", "count", n > 255 ? ">255-strings" : "<=255-strings", lmode == 2 ? "empty-last" : "-", 0, 0)) {
        o_s(c, "{\"strings\":"); o_u(c, n); o_s(c, ",\"counted\":"); o_u(c, cnt); o_s(c, ",\"total\":"); o_u(c, total); o_s(c, "}"); o_end(c);
    }
    check_obj(c, "strarr", "count", "objects", "-");
    /* the count depends on the bytes only: re-pack the SAME buffer (same address, same total length) with the first two
     * strings merged into one and count again - a result remembered from the previous call would be stale */
    if (n >= 2 && (size_t)lens[0] + lens[1] + 2 <= 65535) {
        uint8_t save[4]; memcpy(save, src, 2); memcpy(save + 2, src + 2 + lens[0], 2);
        vssref_put_be(src, 2, (uint64_t)lens[0] + lens[1] + 2);
        vp_call(c);
        uint64_t cnt2 = Avtp_Vss_GetVSSDataStringArrayLength(arr);
        c->evals++;
        vp_tr_u64(c, cnt2);
        if (cnt2 != n - 1 && vp_viol(c, "strarr", "count", "same-buffer-repacked", "stale-or-wrong-count", 0, 0)) {
            o_s(c, "{\"strings_before\":"); o_u(c, n); o_s(c, ",\"strings_after_merge\":"); o_u(c, n - 1); o_s(c, ",\"counted\":"); o_u(c, cnt2); o_s(c, ",\"total\":"); o_u(c, total); o_s(c, "}"); o_end(c);
        }
        /* unpack the merged array into the first object, lengths only */
        so[0].data_length = 0xABCD; so[0].data = 0;
        vp_call(c);
        Avtp_Vss_DeserializeStringArray(arr, sp, 1);
        c->evals++;
        if (so[0].data_length != (uint16_t)(lens[0] + lens[1] + 2) && vp_viol(c, "strarr", "deserialize", "same-buffer-repacked", "stale-or-wrong-length", 0, 0)) {
            o_s(c, "{\"expected\":"); o_u(c, (uint64_t)lens[0] + lens[1] + 2); o_s(c, ",\"got\":"); o_u(c, so[0].data_length); o_s(c, "}"); o_end(c);
        }
        memcpy(src, save, 2);                              /* restore the original packing */
        vp_arena_resync(&O);
        vp_call(c);
        uint64_t cnt3 = Avtp_Vss_GetVSSDataStringArrayLength(arr);
        c->evals++;
        if (cnt3 != n && vp_viol(c, "strarr", "count", "same-buffer-restored", "stale-or-wrong-count", 0, 0)) { o_s(c, "{\"strings\":"); o_u(c, n); o_s(c, ",\"counted\":"); o_u(c, cnt3); o_s(c, "}"); o_end(c); }
    }
    /* requested counts smaller, equal and larger than the packed count */
    uint32_t reqs[6] = { 0, n ? n - 1 : 0, n, n + 1, n + 7, n + extra };
    for (int q = 0; q < 6; q++) {
        uint32_t req = reqs[q];
        if (req > n + extra) req = n + extra;
        const char* rq = req < n ? "fewer" : req == n ? "exact" : "more";
        for (int phase = 0; phase < 3; phase++) {        /* 0: lengths only, 1: all destinations supplied, 2: every other destination supplied */
            static uint8_t* dsts[MAXSTR + 16];
            VssDataString_t* sso = (VssDataString_t*)(O.shadow + O_STRS + (MAXSTR + 64) * sizeof(void*));
            for (uint32_t i = 0; i < req; i++) {
                /* whatever the descriptors held before (a previous, shorter or longer, array) is not a capacity */
                uint32_t li = i < n ? lens[i] : 7;
                static const uint32_t K = 6;
                switch ((i + (uint32_t)q + (uint32_t)phase) % K) { case 0: so[i].data_length = 0xABCD; break; case 1: so[i].data_length = 0; break; case 2: so[i].data_length = 1; break;
                                                 case 3: so[i].data_length = (uint16_t)(li / 2); break; case 4: so[i].data_length = (uint16_t)li; break; default: so[i].data_length = (uint16_t)(li + 1); break; }
                int want = phase == 1 || (phase == 2 && ((i + (uint32_t)q) & 1));
                if (want && i < n) { dsts[i] = blk_alloc(lens[i]); memset(dsts[i], 0x11, lens[i]); so[i].data = (char*)dsts[i]; }
                else { dsts[i] = 0; so[i].data = 0; }
            }
            memcpy(O.shadow, O.mem, OBJ_SZ);
            for (uint32_t i = 0; i < req && i < n; i++) sso[i].data_length = lens[i];
            vp_curop("vss-deserialize-strings", rq, phase == 1 ? "copy" : phase ? "mixed-destinations" : "lengths-only", n);
            vp_call(c);
            Avtp_Vss_DeserializeStringArray(arr, sp, (uint16_t)req);
            c->evals++;
            size_t off, dc, last;
            if (vp_arena_diff(c, &O, &off, &dc, &last)) {
                size_t so_off = O_STRS + (MAXSTR + 64) * sizeof(void*);
                uint64_t which = off >= so_off ? (off - so_off) / sizeof(VssDataString_t) : 0;
                const char* kind = which >= n ? "touched-string-beyond-packed-count" : "length-mismatch";
                if (vp_viol(c, "strarr", "deserialize", rq, phase == 1 ? "copy" : phase ? "mixed-destinations" : "lengths-only", kind, lmode == 2 ? "empty-last" : "-")) {
                    o_s(c, "{\"strings\":"); o_u(c, n); o_s(c, ",\"requested\":"); o_u(c, req); o_s(c, ",\"object_index\":"); o_u(c, which);
                    o_s(c, ",\"expected\":\""); o_hex(c, O.shadow + off, 8); o_s(c, "\",\"actual\":\""); o_hex(c, O.mem + off, 8); o_s(c, "\"}"); o_end(c);
                }
                vp_arena_resync(&O);
            }
            if (phase >= 1) {
                for (uint32_t i = 0; i < req && i < n; i++) {
                    if (!dsts[i]) continue;
                    c->evals++;
                    if (memcmp(dsts[i], strs[i], lens[i]) != 0 && vp_viol(c, "strarr", "deserialize", rq, phase == 1 ? "copy" : "mixed-destinations", "string-bytes-differ", 0)) {
                        o_s(c, "{\"strings\":"); o_u(c, n); o_s(c, ",\"index\":"); o_u(c, i); o_s(c, ",\"len\":"); o_u(c, lens[i]); o_s(c, "}"); o_end(c);
                    }
                    if (!blk_ok(dsts[i], lens[i]) && vp_viol(c, "strarr", "deserialize", rq, "copy", "wrote-beyond-destination", 0)) { o_s(c, "{\"index\":"); o_u(c, i); o_s(c, "}"); o_end(c); }
                    if (i < 4) vp_tr_bytes(c, dsts[i], lens[i] > 32 ? 32 : lens[i]);
                    vp_heap_free(dsts[i]);
                }
            }
        }
    }
    /* one shared "not wanted" descriptor (no destination) for every slot but one: a caller that wants a single string of the
     * list may describe all others by the same object - the wanted string must still arrive, from its own place in the array */
    if (n >= 3) {
        uint32_t j = (uint32_t)(idx % n);
        VssDataString_t* skip = &so[n];
        for (uint32_t i = 0; i < n; i++) sp[i] = (i == j) ? &so[i] : skip;
        skip->data = 0; skip->data_length = 0xABCD;
        uint8_t* d = blk_alloc(lens[j]);
        so[j].data = (char*)d; so[j].data_length = (uint16_t)(idx & 1 ? 0 : 0xFFFF);
        vp_curop("vss-deserialize-strings-shared-skip-descriptor", "", "", n);
        vp_call(c);
        Avtp_Vss_DeserializeStringArray(arr, sp, (uint16_t)n);
        c->evals++;
        if ((so[j].data_length != lens[j] || memcmp(d, strs[j], lens[j]) != 0 || skip->data != 0) && vp_viol(c, "strarr", "deserialize", "shared-skip-descriptor", "wanted-string-differs", 0, 0)) {
            o_s(c, "{\"strings\":"); o_u(c, n); o_s(c, ",\"wanted_index\":"); o_u(c, j); o_s(c, ",\"len\":"); o_u(c, lens[j]); o_s(c, ",\"reported_len\":"); o_u(c, so[j].data_length); o_s(c, "}"); o_end(c);
        }
        if (!blk_ok(d, lens[j]) && vp_viol(c, "strarr", "deserialize", "shared-skip-descriptor", "wrote-beyond-destination", 0, 0)) { o_s(c, "{\"index\":"); o_u(c, j); o_s(c, "}"); o_end(c); }
        vp_heap_free(d);
        for (uint32_t i = 0; i < n + extra && i < MAXSTR + 8; i++) sp[i] = &so[i];
        vp_arena_resync(&O);
    }
    if (g_samples && (idx % 13) == 2) {
        g_samples--; c->outn = 0;
        o_s(c, "X|{\"op\":\"string-array\",\"strings\":"); o_u(c, n); o_s(c, ",\"total_bytes\":"); o_u(c, total); o_s(c, ",\"counted\":"); o_u(c, cnt);
        o_s(c, ",\"packed_prefix\":\""); o_hex(c, packed, total > 32 ? 32 : total); o_s(c, "\"}"); o_end(c);
    }
    g_nontrivial++;
    /* counting and unpacking only read the packed array */
    c->evals++;
    if (total && memcmp(src, ref, total) != 0 && vp_viol(c, "strarr", "deserialize", "packed-source-modified", 0, 0, 0)) { o_s(c, "{\"strings\":"); o_u(c, n); o_s(c, ",\"total\":"); o_u(c, total); o_s(c, "}"); o_end(c); }
    vp_heap_free(src_blk); vp_heap_free(packed_blk); vp_heap_free(ref);
    for (uint32_t i = 0; i < n; i++) vp_heap_free(strs[i]);
}

#ifndef VP_NO_MAIN
int main(void)
{
    vp_watchdog_start();       /* these monitors call the library continuously: a long silence is a spinning call */
    vp_ctx_t* c = &g_ctx;
    const char* mode = vp_cfg_str("MODE", "encode");
    uint64_t seed = vp_cfg_u64("SEED", 1);
    uint64_t cases = vp_cfg_u64("CASES", 2000);
    uint64_t first = vp_cfg_u64("FIRST", 0);
    g_place = (uint32_t)vp_cfg_u64("PLACE", 0);
    g_canary = (int)vp_cfg_u64("CANARY", 0);
    g_nullempty = (int)vp_cfg_u64("NULLEMPTY", 0);
    vp_ctx_init(c, seed, 0x5500 + (uint64_t)mode[0] + first * 977);
    c->tdump = (int)vp_cfg_u64("DUMP", 0);
    vp_arena_new(&A_big, BIG_SZ); vp_arena_new(&A_small, SMALL_SZ); vp_arena_new(&O, OBJ_SZ);
    vp_arena_fill(&A_big, &c->rng); vp_arena_fill(&A_small, &c->rng); vp_arena_fill(&O, &c->rng);
    o_s(c, "BEGIN|vssmon|"); o_s(c, mode); o_s(c, "|seed="); o_u(c, seed); o_s(c, "|first="); o_u(c, first); o_end(c);
    if (strcmp(mode, "encode") == 0) for (uint64_t i = 0; i < cases; i++) do_encode_case(c, first + i);
    else if (strcmp(mode, "decode") == 0) for (uint64_t i = 0; i < cases; i++) do_decode_case(c, first + i);
    else if (strcmp(mode, "pad") == 0) do_pad(c, cases);
    else if (strcmp(mode, "strarr") == 0) for (uint64_t i = 0; i < cases; i++) do_strarr_case(c, first + i);
    else { o_s(c, "ERR|unknown mode"); o_end(c); return 2; }
    vp_tr_mark(c, mode);
    vp_stat(c, "nontrivial", g_nontrivial);
    vp_finish(c, "vssmon");
    return 0;
}
#endif
