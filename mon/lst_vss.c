/* lst_vss.c - drives the main loop of examples/acf-vss/acf-vss-listener.c (C18) */
#define LST_LEARN_REFERENCE 1
#include "lst_common.h"
static ssize_t lst_recv(int fd, void* buf, size_t n, int flags);
#define main listener_main
#define recv lst_recv
#include "acf-vss/acf-vss-listener.c"
#undef main
#undef recv
#include "lst_mainloop.h"
#include "vssref.h"

static const char* lst_name(void) { return "acf-vss-listener"; }
static int lst_nmodes(void) { return 2; }
static const char* lst_mode_name(int m) { return m ? "udp" : "raw"; }

static size_t build_valid(vp_rng_t* r, int udp, int tscf, uint8_t* b, uint32_t amode, uint32_t dtcode, uint32_t plen, uint32_t vlen, uint32_t sid, uint32_t fbits)
{
    size_t o = 0;
    if (udp) { Avtp_Udp_Init((Avtp_Udp_t*)b); o = 4; }
    uint8_t* cf = b + o;
    if (tscf) { Avtp_Tscf_Init((Avtp_Tscf_t*)cf); o += 24; } else { Avtp_Ntscf_Init((Avtp_Ntscf_t*)cf); o += 12; }
    uint8_t* v = b + o;
    Avtp_Vss_Init((Avtp_Vss_t*)v);
    Avtp_Vss_SetField((Avtp_Vss_t*)v, AVTP_VSS_FIELD_ADDR_MODE, amode);
    Avtp_Vss_SetField((Avtp_Vss_t*)v, AVTP_VSS_FIELD_VSS_DATATYPE, dtcode);
    uint8_t path[1500]; vp_rng_fill(r, path, sizeof path); for (uint32_t i = 0; i < plen && i < 1500; i++) path[i] = (uint8_t)('a' + path[i] % 26);
    size_t P = vssref_encode_path(v + 12, amode, sid, path, plen);
    const vss_dt_t* dt = vssref_datatype(dtcode);
    size_t D = 0;
    if (dt->kind == VK_SCALAR) { uint64_t e = dt->esize == 4 ? fbits : vp_rng_next(r); D = vssref_encode_value(v + 12 + P, dt, &e, 1, 0, 0); }
    else if (dt->kind != VK_RESERVED) { uint8_t bytes[1500]; vp_rng_fill(r, bytes, sizeof bytes); vssref_put_be(v + 12 + P, 2, vlen); memcpy(v + 14 + P, bytes, vlen > 1400 ? 1400 : vlen); D = 2 + (vlen > 1400 ? 1400 : vlen); }
    size_t tot = 12 + P + D;
    if (tot > 1400) tot = 1400;
    size_t padded = (tot + 3) / 4 * 4;
    Avtp_Vss_SetField((Avtp_Vss_t*)v, AVTP_VSS_FIELD_ACF_MSG_LENGTH, padded / 4);
    if (tscf) Avtp_Tscf_SetStreamDataLength((Avtp_Tscf_t*)cf, (uint16_t)padded); else Avtp_Ntscf_SetNtscfDataLength((Avtp_Ntscf_t*)cf, (uint16_t)padded);
    return o + padded;
}

static void lst_make_sequence(vp_rng_t* r, int mode, uint64_t idx, seq_t* s)
{
    static const uint8_t codes[] = { 0,1,2,3,4,5,6,7,8,9,10,11,0x80,0x81,0x82,0x83,0x84,0x85,0x86,0x87,0x88,0x89,0x8A,0x8B,0x0C,0x7f,0x8C,0xff };
    int nd = 1 + (int)vp_rng_below(r, 3);
    const char* name = "?";
    if (idx % 41 == 17) {                 /* soak: a long stream of valid interoperable messages through one listener instance */
        int longp = (int)((idx / 41) & 1);
        for (int d = 0; d < MAX_DGRAMS; d++) {
            uint8_t b[DGRAM_MAX]; memset(b, 0, sizeof b);
            static const uint8_t sc[] = { 9, 2, 10, 0x0B, 0x8B, 4, 7, 0 };
            size_t n = build_valid(r, mode, (int)(vp_rng_next(r) & 1), b, 0, sc[d], longp ? 1300 + (uint32_t)vp_rng_below(r, 60) : 8 + (uint32_t)vp_rng_below(r, 40), 6, 0, 0x3fc00000);
            seq_add(s, b, n);
        }
        s->repeat = longp ? 40 : 260;
        snprintf(s->tmpl, sizeof s->tmpl, "%s", longp ? "soak-valid-long-paths" : "soak-valid-short-paths");
        return;
    }
    for (int d = 0; d < nd; d++) {
        uint8_t b[DGRAM_MAX]; memset(b, 0, sizeof b);
        int tscf = (int)(vp_rng_next(r) & 1);
        uint32_t amode = (uint32_t)((idx / 28 + (uint64_t)d) % 4), dtc = codes[(idx + (uint64_t)d) % 28];
        size_t hdr = (size_t)(mode ? 4 : 0) + (size_t)(tscf ? 24 : 12);
        size_t n = build_valid(r, mode, tscf, b, amode, dtc, (uint32_t)vp_rng_below(r, 40), (uint32_t)vp_rng_below(r, 60), (uint32_t)vp_rng_next(r), 0x3fc00000);
        switch ((idx / 3 + (uint64_t)d * 5) % 16) {
        case 14: case 15: {                /* a scalar value that straddles the end of a maximum-size datagram */
            name = "value-straddles-end-of-1500-byte-datagram";
            static const uint8_t sc[] = { 2, 3, 4, 5, 6, 7, 9, 10 };
            uint32_t dt2 = sc[vp_rng_below(r, 8)];
            uint32_t cut = 1 + (uint32_t)vp_rng_below(r, 7);             /* bytes of the value that still lie inside */
            uint32_t plen2 = (uint32_t)(1500 - hdr - 12 - 2 - cut);
            n = build_valid(r, mode, tscf, b, 0, dt2, plen2, 0, 0, 0x3fc00000);
            if (tscf) Avtp_Tscf_SetStreamDataLength((Avtp_Tscf_t*)(b + (mode ? 4 : 0)), (uint16_t)(1500 - hdr)); else Avtp_Ntscf_SetNtscfDataLength((Avtp_Ntscf_t*)(b + (mode ? 4 : 0)), (uint16_t)(1500 - hdr));
            Avtp_Vss_SetField((Avtp_Vss_t*)(b + hdr), AVTP_VSS_FIELD_ACF_MSG_LENGTH, (1500 - hdr) / 4);
            n = 1500;
            break; }
        case 12: case 13: {                /* short datagram whose headers announce far more than was sent */
            name = "announce-more-than-sent";
            n = build_valid(r, mode, tscf, b, 0, (idx & 1) ? 9 : 0x0B, 20, 10, 0, 0x3fc00000);
            uint16_t big = (uint16_t)(1200 + vp_rng_below(r, 800));
            if (tscf) Avtp_Tscf_SetStreamDataLength((Avtp_Tscf_t*)(b + (mode ? 4 : 0)), (vp_rng_next(r) & 1) ? 65535 : big);
            else Avtp_Ntscf_SetNtscfDataLength((Avtp_Ntscf_t*)(b + (mode ? 4 : 0)), (uint16_t)(big & 0x7ff) | 0x400);
            Avtp_Vss_SetField((Avtp_Vss_t*)(b + hdr), AVTP_VSS_FIELD_ACF_MSG_LENGTH, 511);
            vssref_put_be(b + hdr + 12, 2, (uint64_t)(1000 + vp_rng_below(r, 1000)));
            n = hdr + 14 + (size_t)vp_rng_below(r, 30);
            break; }
        case 0: case 1: case 2: name = "valid-mode-x-datatype"; break;
        case 3: name = "path-length-lie"; vssref_put_be(b + hdr + 12, 2, (uint64_t)vp_rng_next(r)); break;
        case 4: name = "path-length-near-65535"; vssref_put_be(b + hdr + 12, 2, 65535 - (uint64_t)((idx >> 4) % 24)); break;   /* sums of header size and path size that wrap 16 bits */
        case 5: name = "value-length-lie"; n = build_valid(r, mode, tscf, b, amode & 1, 0x80 + (uint32_t)vp_rng_below(r, 12), 5, 65535, 7, 0); break;
        case 6: name = "truncate-any"; n = (size_t)vp_rng_below(r, n + 1); break;
        case 7: name = "truncate-0-64"; n = (size_t)vp_rng_below(r, 65);
            if (idx & 64) {               /* a datagram that ends inside the static id or inside the float value, with length fields that say so */
                name = "ends-inside-static-id-or-value";
                n = build_valid(r, mode, tscf, b, 1, 9, 0, 0, (uint32_t)vp_rng_next(r), 0x3fc00000);
                size_t keep = 12 + (size_t)vp_rng_below(r, 8);            /* 12..19 of the 20 message bytes */
                n = hdr + keep;
                if (tscf) Avtp_Tscf_SetStreamDataLength((Avtp_Tscf_t*)(b + (mode ? 4 : 0)), (uint16_t)keep); else Avtp_Ntscf_SetNtscfDataLength((Avtp_Ntscf_t*)(b + (mode ? 4 : 0)), (uint16_t)keep);
                Avtp_Vss_SetField((Avtp_Vss_t*)(b + hdr), AVTP_VSS_FIELD_ACF_MSG_LENGTH, (keep + 3) / 4);
            }
            break;
        case 8: name = "empty-datagram"; n = 0; break;
        case 9: name = "random-bytes"; n = (size_t)vp_rng_below(r, 1601); vp_rng_fill(r, b, n);   /* up to 100 bytes more than any receive buffer holds */ b[hdr < n ? hdr : 0] = 0x84; break;
        case 10: name = "bit-flips"; mutate_bytes(r, b, n, 1 + (int)vp_rng_below(r, 5)); break;
        default: name = "long-path-fills-datagram"; n = build_valid(r, mode, tscf, b, 0, 9, 1350, 0, 0, 0x3fc00000); break;
        }
        seq_add(s, b, n);
    }
    snprintf(s->tmpl, sizeof s->tmpl, "%s", name);
}

static int lst_child(int mode, const seq_t* s)
{
    if (mainloop_setup() < 0) return EX_HARNESS;
    vp_rng_t r; vp_rng_seed(&r, 99, 1);
    g_cur_mode = mode; g_cur_variant = g_variant_force >= 0 ? g_variant_force : (s->n && (s->len[0] & 1));
    if (g_cur_variant) {                  /* half of the runs: an interoperable path, shorter than hostile ones seen before */
        uint8_t tmp[DGRAM_MAX]; memset(tmp, 0, sizeof tmp);
        g_sentinel_len = (int)build_valid(&r, mode, 0, g_sentinel, 0, 9, 13, 0, 0, 0x3fc00000);
        memcpy(g_sentinel + (mode ? 4 : 0) + 12 + 14, "Vehicle.Speed", 13);
        g_expect = "VSS Path: Vehicle.Speed, VSS Value: 1.500000\n"; g_expect_token = "Vehicle.Speed";
    } else {
        g_sentinel_len = (int)build_valid(&r, mode, 0, g_sentinel, 1, 9, 0, 0, 1234, 0x3fc00000);   /* static id 1234, float 1.5 */
        g_expect = "VSS Path: 1234, VSS Value: 1.500000\n"; g_expect_token = "1234";
    }
    char* argv_u[] = { "acf-vss-listener", "-u", 0 };
    char* argv_r[] = { "acf-vss-listener", "lo", "aa:bb:cc:dd:ee:ff", 0 };
    listener_main(mode ? 2 : 3, mode ? argv_u : argv_r);
    /* the receive loop of main() ended: the listener gave up on a datagram instead of going on to the next one */
    fprintf(stderr, "VP-TERMINATED: the listener's main() returned after datagram %d\n", g_cur_dgram);
    return EX_TERMINATED;
}
#ifndef LST_FUZZ
int main(void) { return lst_driver_main(); }
#else
static int fuzz_pair[2] = { -1, -1 };
static void lst_fuzz_one(int mode, const uint8_t* d, size_t n)
{
    if (fuzz_pair[0] < 0) { if (make_pair(fuzz_pair) < 0) abort(); g_feed_fd = fuzz_pair[0]; g_listen_fd = fuzz_pair[1]; }
    fuzz_d = d; fuzz_n = n; fuzz_phase = 0;
    if (setjmp(fuzz_jb) == 0) {
        char* argv_u[] = { "acf-vss-listener", "-u", 0 };
        char* argv_r[] = { "acf-vss-listener", "lo", "aa:bb:cc:dd:ee:ff", 0 };
        use_udp = 0;
        listener_main(mode ? 2 : 3, mode ? argv_u : argv_r);
    }
}
#endif
