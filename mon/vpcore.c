/*
 * vpcore.c - portable core of the monitors: PRNG, output lines, violation de-duplication,
 * transcript hashing, arena write monitor, reference bit-field model, value classes.
 * Byte-wise / register-only code: valid natively and inside the big-endian emulation.
 */
#include "vp.h"

/* ------------------------------------------------------------------ PRNG */
static uint64_t splitmix(uint64_t* x)
{
    uint64_t z = (*x += 0x9E3779B97F4A7C15ull);
    z = (z ^ (z >> 30)) * 0xBF58476D1CE4E5B9ull;
    z = (z ^ (z >> 27)) * 0x94D049BB133111EBull;
    return z ^ (z >> 31);
}

void vp_rng_seed(vp_rng_t* r, uint64_t seed, uint64_t stream)
{
    uint64_t x = seed * 0x9E3779B97F4A7C15ull + stream * 0xD1B54A32D192ED03ull + 0x1234567;
    for (int i = 0; i < 4; i++) r->s[i] = splitmix(&x);
    r->feed = 0; r->feed_n = 0;
}

static inline uint64_t rotl(uint64_t x, int k) { return (x << k) | (x >> (64 - k)); }

uint64_t vp_rng_next(vp_rng_t* r)
{
    if (r->feed_n) {
        uint64_t v = 0; size_t k = r->feed_n < 8 ? r->feed_n : 8;
        memcpy(&v, r->feed, k); r->feed += k; r->feed_n -= k;
        return v;
    }
    uint64_t* s = r->s;
    uint64_t result = rotl(s[1] * 5, 7) * 9;
    uint64_t t = s[1] << 17;
    s[2] ^= s[0]; s[3] ^= s[1]; s[1] ^= s[2]; s[0] ^= s[3];
    s[2] ^= t; s[3] = rotl(s[3], 45);
    return result;
}

void vp_rng_fill(vp_rng_t* r, uint8_t* p, size_t n)
{
    size_t i = 0;
    while (i < n) {
        uint64_t v = vp_rng_next(r);
        for (int k = 0; k < 8 && i < n; k++, i++) { p[i] = (uint8_t)(v & 0xff); v >>= 8; }
    }
}

/* ------------------------------------------------------------------ context / output */
void vp_ctx_init(vp_ctx_t* c, uint64_t seed, uint64_t stream)
{
    memset(c, 0, sizeof(*c));
    c->seed = seed;
    vp_rng_seed(&c->rng, seed, stream);
    c->th = 0xcbf29ce484222325ull;
}

volatile unsigned long vp_progress_counter;

static void o_c(vp_ctx_t* c, char ch)
{
    if (c->outn < VP_OUT_MAX - 2) c->out[c->outn++] = ch;
}

void o_s(vp_ctx_t* c, const char* s) { while (*s) o_c(c, *s++); }

void o_u(vp_ctx_t* c, uint64_t v)
{
    char tmp[24]; int n = 0;
    do { tmp[n++] = (char)('0' + (v % 10)); v /= 10; } while (v);
    while (n) o_c(c, tmp[--n]);
}

void o_x(vp_ctx_t* c, uint64_t v)
{
    static const char hx[] = "0123456789abcdef";
    char tmp[20]; int n = 0;
    do { tmp[n++] = hx[v & 15]; v >>= 4; } while (v);
    o_c(c, '0'); o_c(c, 'x');
    while (n) o_c(c, tmp[--n]);
}

void o_hex(vp_ctx_t* c, const uint8_t* p, size_t n)
{
    static const char hx[] = "0123456789abcdef";
    for (size_t i = 0; i < n; i++) { o_c(c, hx[p[i] >> 4]); o_c(c, hx[p[i] & 15]); }
}

int vp_abort_on_violation;

void o_end(vp_ctx_t* c)
{
    o_c(c, '\n');
    if (!c->quiet) vp_write(c->out, c->outn);
    if (vp_abort_on_violation && c->outn > 2 && c->out[0] == 'V' && c->out[1] == '|') abort();
    c->outn = 0;
}

void vp_stat(vp_ctx_t* c, const char* name, uint64_t v)
{
    o_s(c, "S|"); o_s(c, name); o_s(c, "|"); o_u(c, v); o_end(c);
}

void vp_stat2(vp_ctx_t* c, const char* name, const char* sub, uint64_t v)
{
    o_s(c, "S|"); o_s(c, name); o_s(c, "."); o_s(c, sub); o_s(c, "|"); o_u(c, v); o_end(c);
}

static uint64_t fnv_str(uint64_t h, const char* s)
{
    while (*s) { h ^= (uint8_t)*s++; h *= 0x100000001b3ull; }
    h ^= 0xff; h *= 0x100000001b3ull;
    return h;
}

int vp_viol(vp_ctx_t* c, const char* k1, const char* k2, const char* k3, const char* k4, const char* k5, const char* k6)
{
    const char* ks[6] = { k1, k2, k3, k4, k5, k6 };
    uint64_t h = 0xcbf29ce484222325ull;
    for (int i = 0; i < 6; i++) if (ks[i]) h = fnv_str(h, ks[i]);
    if (h == 0) h = 1;
    uint32_t idx = (uint32_t)(h % VP_KEYS_MAX);
    uint32_t probes = 0;
    while (c->key_hash[idx] != 0 && c->key_hash[idx] != h && probes < VP_KEYS_MAX) { idx = (idx + 1) % VP_KEYS_MAX; probes++; }
    c->nviol++;
    if (c->key_hash[idx] == 0) { c->key_hash[idx] = h; c->key_cnt[idx] = 0; c->nviol_keys++; }
    c->key_cnt[idx]++;
    if (c->key_cnt[idx] > VP_VIOL_DETAIL && probes < VP_KEYS_MAX) return 0;
    c->outn = 0;
    o_s(c, "V|");
    for (int i = 0; i < 6; i++) if (ks[i]) { if (i) o_s(c, ":"); o_s(c, ks[i]); }
    o_s(c, "|");
    return 1;
}

void vp_finish(vp_ctx_t* c, const char* engine)
{
    vp_stat(c, "evals", c->evals);
    vp_stat(c, "ops", c->ops);
    vp_stat(c, "bytes_compared", c->bytes_cmp);
    vp_stat(c, "violations", c->nviol);
    vp_stat(c, "violation_keys", c->nviol_keys);
    o_s(c, "END|"); o_s(c, engine); o_end(c);
}

/* ------------------------------------------------------------------ transcript */
static inline void th_byte(vp_ctx_t* c, uint8_t b) { c->th ^= b; c->th *= 0x100000001b3ull; }

void vp_tr_u64(vp_ctx_t* c, uint64_t v)
{
    for (int i = 0; i < 8; i++) th_byte(c, (uint8_t)(v >> (8 * i)));
    c->tn++;
    if (c->tdump) { o_s(c, "T|v|"); o_x(c, v); o_end(c); }
}

void vp_tr_bytes(vp_ctx_t* c, const uint8_t* p, size_t n)
{
    for (size_t i = 0; i < n; i++) th_byte(c, p[i]);
    th_byte(c, 0xa5);
    c->tn++;
    if (c->tdump) { o_s(c, "T|b|"); o_hex(c, p, n > 96 ? 96 : n); if (n > 96) { o_s(c, "..+"); o_u(c, n - 96); } o_end(c); }
}

void vp_tr_tag(vp_ctx_t* c, const char* tag)
{
    c->th = fnv_str(c->th, tag);
    if (c->tdump) { o_s(c, "T|t|"); o_s(c, tag); o_end(c); }
}

void vp_tr_mark(vp_ctx_t* c, const char* chunk)
{
    o_s(c, "H|"); o_s(c, chunk); o_s(c, "|"); o_x(c, c->th); o_s(c, "|"); o_u(c, c->tn); o_end(c);
    c->th = 0xcbf29ce484222325ull; c->tn = 0;
}

/* ------------------------------------------------------------------ arena */
void vp_arena_new(vp_arena_t* a, size_t n)
{
    a->n = n;
    a->mem = vp_map(n);
    a->shadow = vp_map(n);
}

void vp_arena_del(vp_arena_t* a)
{
    vp_unmap(a->mem, a->n); vp_unmap(a->shadow, a->n);
    a->mem = a->shadow = 0; a->n = 0;
}

void vp_arena_fill(vp_arena_t* a, vp_rng_t* r)
{
    vp_rng_fill(r, a->mem, a->n);
    memcpy(a->shadow, a->mem, a->n);
}

int vp_arena_diff(vp_ctx_t* c, const vp_arena_t* a, size_t* off, size_t* cnt, size_t* last)
{
    c->bytes_cmp += a->n;
    if (memcmp(a->mem, a->shadow, a->n) == 0) return 0;
    size_t first = 0, n = 0, l = 0; int have = 0;
    for (size_t i = 0; i < a->n; i++) {
        if (a->mem[i] != a->shadow[i]) { if (!have) { first = i; have = 1; } n++; l = i; }
    }
    *off = first; *cnt = n; *last = l;
    return 1;
}

void vp_arena_resync(vp_arena_t* a) { memcpy(a->shadow, a->mem, a->n); }

/* ------------------------------------------------------------------ reference bit-field model */
uint64_t bf_get(const uint8_t* buf, uint32_t pos, uint32_t width)
{
    uint64_t v = 0;
    for (uint32_t i = 0; i < width; i++) {
        uint32_t b = pos + i;
        uint32_t bit = (buf[b >> 3] >> (7 - (b & 7))) & 1u;
        v = (v << 1) | bit;
    }
    return v;
}

void bf_set(uint8_t* buf, uint32_t pos, uint32_t width, uint64_t v)
{
    for (uint32_t i = 0; i < width; i++) {
        uint32_t b = pos + i;
        uint32_t bit = (uint32_t)((v >> (width - 1 - i)) & 1u);
        uint8_t m = (uint8_t)(1u << (7 - (b & 7)));
        if (bit) buf[b >> 3] |= m; else buf[b >> 3] &= (uint8_t)~m;
    }
}

/* ------------------------------------------------------------------ value classes */
static const char* const valclass_names[VP_NVALCLASS] = {
    "zero", "one", "max", "msb", "overflow", "overflow+1", "all-ones64", "alt-55", "alt-aa",
    "walk1", "walk0", "max-1", "random-fit", "random64"
};

const char* vp_value_class_name(uint32_t cls) { return valclass_names[cls % VP_NVALCLASS]; }

uint64_t vp_value_class(vp_rng_t* r, uint32_t cls, uint32_t width)
{
    uint64_t m = bf_mask(width);
    switch (cls % VP_NVALCLASS) {
    case 0: return 0;
    case 1: return 1;
    case 2: return m;
    case 3: return width ? ((uint64_t)1 << (width - 1)) : 0;
    case 4: return width >= 64 ? ~(uint64_t)0 : ((uint64_t)1 << width);          /* 2^w      */
    case 5: return width >= 64 ? 1 : (((uint64_t)1 << width) | 1);                /* 2^w + 1  */
    case 6: return ~(uint64_t)0;
    case 7: return 0x5555555555555555ull;
    case 8: return 0xAAAAAAAAAAAAAAAAull;
    case 9: return (uint64_t)1 << vp_rng_below(r, 64);
    case 10: return ~((uint64_t)1 << vp_rng_below(r, 64));
    case 11: return m - 1;
    case 12: return vp_rng_next(r) & m;
    default: return vp_rng_next(r);
    }
}

/* ------------------------------------------------------------------ argument evaluation count (bindings) */
void vp_argeval_report(const char* fn, unsigned got, unsigned expect)
{
    static const char* seen[64]; static unsigned nseen;
    for (unsigned i = 0; i < nseen && i < 64; i++) if (seen[i] == fn) return;
    if (nseen < 64) seen[nseen++] = fn;
    char line[256]; size_t n = 0;
    const char* a = "V|argeval:"; while (*a) line[n++] = *a++;
    for (const char* q = fn; *q && n < 150; q++) line[n++] = *q;
    const char* b = ":arguments-evaluated-"; while (*b) line[n++] = *b++;
    if (got >= 10) line[n++] = (char)('0' + (got / 10) % 10);
    line[n++] = (char)('0' + got % 10);
    const char* c2 = "-times-instead-of-"; while (*c2) line[n++] = *c2++;
    line[n++] = (char)('0' + expect % 10);
    const char* d = "|{\"note\":\"a function call evaluates every argument exactly once\"}\n"; while (*d) line[n++] = *d++;
    vp_write(line, n);
}
