/* bo_wrap.c - exports the helper set that avtp/Byteorder.h selects in this compilation
 * under a prefix (compiled twice: natively, and with __BYTE_ORDER__ forced to big-endian). */
#ifdef VP_HOSTED_FIRST      /* an application includes libc headers (which define __LITTLE_ENDIAN, BYTE_ORDER, ...) first */
#include <stdlib.h>
#include <sys/types.h>
#include <time.h>
#include <endian.h>
#include <arpa/inet.h>
#endif
#include "avtp/Byteorder.h"
#define CAT2(a, b) a##b
#define CAT(a, b) CAT2(a, b)
/* every wrapper counts how often its argument expression is evaluated by the call: exactly once for a function; a
 * function-like macro of the same name that mentions its operand several times evaluates it several times */
#define HELPERS(W) \
    W(Bswap16, uint16_t) W(Bswap32, uint32_t) W(Bswap64, uint64_t) \
    W(CpuToLe16, uint16_t) W(CpuToLe32, uint32_t) W(CpuToLe64, uint64_t) \
    W(CpuToBe16, uint16_t) W(CpuToBe32, uint32_t) W(CpuToBe64, uint64_t) \
    W(LeToCpu16, uint16_t) W(LeToCpu32, uint32_t) W(LeToCpu64, uint64_t) \
    W(BeToCpu16, uint16_t) W(BeToCpu32, uint32_t) W(BeToCpu64, uint64_t)
#define W(name, T) static unsigned ae_##name = 1; T CAT(PFX, name)(T x) { unsigned ae = 0; T r = Avtp_##name((ae++, x)); if (ae != 1) ae_##name = ae; return r; }
HELPERS(W)
#undef W
/* returns the evaluation count of helper idx (1 when it always was 1) and its name; 0 past the end */
unsigned CAT(PFX, argevals)(unsigned idx, const char** name)
{
#define W(nm, T) { #nm, &ae_##nm },
    static const struct { const char* n; unsigned* c; } t[] = { HELPERS(W) };
#undef W
    if (idx >= sizeof t / sizeof t[0]) return 0;
    *name = t[idx].n;
    return *t[idx].c ? *t[idx].c : 99;
}
int CAT(PFX, selected_big_endian)(void)
{
#if (__BYTE_ORDER__ == __ORDER_LITTLE_ENDIAN__)
    return 0;
#else
    return 1;
#endif
}

/* Calls with literal arguments: an implementation may take a different path for compile-time constants
 * (__builtin_constant_p, constant folding), which a loop over run-time values never reaches. */
#define K16 X(0x0000) X(0x0001) X(0x0100) X(0x00ff) X(0xff00) X(0x1234) X(0x8001) X(0xfffe) X(0xa55a) X(0x0180)
#define K32 X(0x00000000u) X(0x00000001u) X(0x000000ffu) X(0x0000ff00u) X(0x00ff0000u) X(0xff000000u) X(0x01020304u) X(0x80000001u) \
            X(0xfffefdfcu) X(0x12345678u) X(0x00010000u) X(0x00000100u) X(0x01000000u) X(0xdeadbeefu) X(0x7fffffffu) X(0xa5a55a5au)
#define K64 X(0x0000000000000000ull) X(0x0000000000000001ull) X(0x00000000000000ffull) X(0x000000000000ff00ull) X(0x0000000000ff0000ull) \
            X(0x00000000ff000000ull) X(0x000000ff00000000ull) X(0x0000ff0000000000ull) X(0x00ff000000000000ull) X(0xff00000000000000ull) \
            X(0x0102030405060708ull) X(0x8000000000000001ull) X(0xfffefdfcfbfaf9f8ull) X(0x0123456789abcdefull) X(0x0000000100000000ull) \
            X(0x0000010000000000ull) X(0x0001000000000000ull) X(0x0100000000000000ull) X(0x00000000ffffffffull) X(0xffffffff00000000ull) \
            X(0xa5a5a5a55a5a5a5aull) X(0x7fffffffffffffffull) X(0x0000008000000000ull) X(0x1122334455667788ull)
unsigned CAT(PFX, const_calls)(uint64_t* arg, uint64_t* res, unsigned char* fn, unsigned char* bits, unsigned max)
{
    unsigned n = 0;
#define EMIT(B, fnid, call, k) if (n < max) { arg[n] = (k); res[n] = (call); fn[n] = (fnid); bits[n] = (B); n++; }
#define X(k) EMIT(16, 0, Avtp_Bswap16(k), k) EMIT(16, 1, Avtp_CpuToLe16(k), k) EMIT(16, 2, Avtp_CpuToBe16(k), k) EMIT(16, 3, Avtp_LeToCpu16(k), k) EMIT(16, 4, Avtp_BeToCpu16(k), k)
    K16
#undef X
#define X(k) EMIT(32, 0, Avtp_Bswap32(k), k) EMIT(32, 1, Avtp_CpuToLe32(k), k) EMIT(32, 2, Avtp_CpuToBe32(k), k) EMIT(32, 3, Avtp_LeToCpu32(k), k) EMIT(32, 4, Avtp_BeToCpu32(k), k)
    K32
#undef X
#define X(k) EMIT(64, 0, Avtp_Bswap64(k), k) EMIT(64, 1, Avtp_CpuToLe64(k), k) EMIT(64, 2, Avtp_CpuToBe64(k), k) EMIT(64, 3, Avtp_LeToCpu64(k), k) EMIT(64, 4, Avtp_BeToCpu64(k), k)
    K64
#undef X
    return n;
}
