/* bo_wrap.c - exports the helper set that avtp/Byteorder.h selects in this compilation
 * under a prefix (compiled twice: natively, and with __BYTE_ORDER__ forced to big-endian). */
#include "avtp/Byteorder.h"
#define CAT2(a, b) a##b
#define CAT(a, b) CAT2(a, b)
#define W(name, T) T CAT(PFX, name)(T x) { return Avtp_##name(x); }
W(Bswap16, uint16_t) W(Bswap32, uint32_t) W(Bswap64, uint64_t)
W(CpuToLe16, uint16_t) W(CpuToLe32, uint32_t) W(CpuToLe64, uint64_t)
W(CpuToBe16, uint16_t) W(CpuToBe32, uint32_t) W(CpuToBe64, uint64_t)
W(LeToCpu16, uint16_t) W(LeToCpu32, uint32_t) W(LeToCpu64, uint64_t)
W(BeToCpu16, uint16_t) W(BeToCpu32, uint32_t) W(BeToCpu64, uint64_t)
int CAT(PFX, selected_big_endian)(void)
{
#if (__BYTE_ORDER__ == __ORDER_LITTLE_ENDIAN__)
    return 0;
#else
    return 1;
#endif
}
