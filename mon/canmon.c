/*
 * canmon.c - monitor for the ACF-CAN message builders (C06).
 *
 * Oracle: hdr || payload || 0^pad with acf_msg_length=(H+L+pad)/4, pad=(4-L%4)%4, identifier mod
 * 2^29, eff=(id>0x7FF), fdf=variant, everything else - every other header bit, every byte of
 * the arena beyond the padded message - unchanged.  Verdicts for L in 0..64; longer lengths
 * are observed and counted only.
 *
 * VP_MODE: build (arena + exact heap), VP_SEED, VP_REPS, VP_PLACE.
 */
#define VP_PROGRESS 1
#include "vp.h"
#include "avtp/acf/Can.h"
#include "avtp/acf/CanBrief.h"

#define ARENA_SZ  16384
#define PDU_BASE  4096

/* spec positions (from spec/wire.spec, CAN / CANBRIEF) */
#define POS_LEN   7
#define W_LEN     9
#define POS_PAD   16
#define POS_EFF   20
#define POS_FDF   22
#define POS_ID_FULL  99
#define POS_ID_BRIEF 35

static vp_ctx_t g_ctx;
static uint32_t g_place;

enum { B_FULL_ONESHOT, B_FULL_SPLIT, B_BRIEF_ONESHOT, B_BRIEF_SPLIT, B_N };
static const char* const bnames[] = { "full-create", "full-setpayload+finalize", "brief-setpayload", "brief-copy+finalize" };

static void model(uint8_t* s, int brief, uint32_t id, const uint8_t* payload, uint32_t L, int fd, int judge_eff, const uint8_t* actual)
{
    uint32_t H = brief ? 8 : 16;
    uint32_t pad = (4 - L % 4) % 4;
    memcpy(s + H, payload, L);
    memset(s + H + L, 0, pad);
    bf_set(s, POS_LEN, W_LEN, ((H + L + pad) / 4) & 0x1ff);
    bf_set(s, POS_PAD, 2, pad);
    bf_set(s, brief ? POS_ID_BRIEF : POS_ID_FULL, 29, id & 0x1fffffff);
    if (judge_eff) bf_set(s, POS_EFF, 1, id > 0x7ff);
    else bf_set(s, POS_EFF, 1, bf_get(actual, POS_EFF, 1));
    bf_set(s, POS_FDF, 1, (uint64_t)(fd != 0));
}

static int g_nullempty;
static void run_builder(int b, uint8_t* p, uint32_t id, uint8_t* payload, uint32_t L, int fd, int* ret)
{
    if (L == 0 && g_nullempty && (id & 1) && b != B_BRIEF_SPLIT) payload = 0;     /* a frame without data described by a null pointer */
    Avtp_CanVariant_t var = fd ? AVTP_CAN_FD : AVTP_CAN_CLASSIC;
    *ret = -1;
    switch (b) {
    case B_FULL_ONESHOT:
        Avtp_Can_CreateAcfMessage((Avtp_Can_t*)p, id, payload, (uint16_t)L, var);
        break;
    case B_FULL_SPLIT:
        Avtp_Can_SetPayload((Avtp_Can_t*)p, payload, (uint16_t)L);
        Avtp_Can_SetField((Avtp_Can_t*)p, AVTP_CAN_FIELD_EFF, id > 0x7ff);
        Avtp_Can_SetCanIdentifier((Avtp_Can_t*)p, id);
        Avtp_Can_SetFdf((Avtp_Can_t*)p, (uint8_t)fd);
        Avtp_Can_Finalize((Avtp_Can_t*)p, (uint16_t)L);
        break;
    case B_BRIEF_ONESHOT:
        *ret = Avtp_CanBrief_SetPayload((Avtp_CanBrief_t*)p, id, payload, (uint16_t)L, var);
        break;
    case B_BRIEF_SPLIT:
        memcpy(p + AVTP_CAN_BRIEF_HEADER_LEN, payload, L);
        Avtp_CanBrief_SetEff((Avtp_CanBrief_t*)p, id > 0x7ff);
        Avtp_CanBrief_SetField((Avtp_CanBrief_t*)p, AVTP_CAN_BRIEF_FIELD_CAN_IDENTIFIER, id);
        Avtp_CanBrief_SetFdf((Avtp_CanBrief_t*)p, (uint8_t)fd);
        *ret = Avtp_CanBrief_Finalize((Avtp_CanBrief_t*)p, (uint16_t)L);
        break;
    }
}

static uint32_t id_class(vp_rng_t* r, uint32_t k)
{
    static const uint32_t fixed[] = { 0, 1, 0x7fe, 0x7ff, 0x800, 0x801, 0x1fffffff, 0x1ffffffe, 0x12345678 & 0x1fffffff, 0x000007ff | 0x10000000 };
    if (k < 10) return fixed[k];
    if (k < 14) { static const uint32_t big[] = { 0x20000000, 0x800007ff, 0xffffffff, 0x40000123 }; return big[k - 10]; }
    if (k < 14 + 34) return 0x7f0 + (k - 14);                     /* every identifier around the extended-frame threshold */
    if (k < 14 + 34 + 29) return (uint32_t)1 << (k - 48);          /* every single identifier bit */
    if (k & 1) return (uint32_t)vp_rng_next(r) & 0x1fffffff;
    return (uint32_t)vp_rng_next(r) & 0x7ff;
}

#ifndef VP_NO_MAIN
int main(void)
{
    vp_watchdog_start();       /* these monitors call the library continuously: a long silence is a spinning call */
    vp_ctx_t* c = &g_ctx;
    uint64_t seed = vp_cfg_u64("SEED", 1);
    uint64_t reps = vp_cfg_u64("REPS", 4);
    uint64_t maxlen = vp_cfg_u64("MAXLEN", 64);
    g_place = (uint32_t)vp_cfg_u64("PLACE", 0);
    g_nullempty = (int)vp_cfg_u64("NULLEMPTY", 0);
    vp_ctx_init(c, seed, 0xCA0);
    c->tdump = (int)vp_cfg_u64("DUMP", 0);
    vp_arena_t a;
    vp_arena_new(&a, ARENA_SZ);
    uint8_t payload_buf[2100];
    uint64_t nontrivial = 0, longobs = 0, longmis = 0, samples = 6;
    o_s(c, "BEGIN|canmon|seed="); o_u(c, seed); o_end(c);

    for (uint32_t L = 0; L <= 2028; L++) {
        int judged = L <= maxlen;
        if (!judged && (L % 7) != (seed % 7)) continue;          /* sample of longer lengths, observation only */
        for (int b = 0; b < B_N; b++) {
            int brief = b >= B_BRIEF_ONESHOT;
            uint32_t H = brief ? 8 : 16;
            uint32_t pad = (4 - L % 4) % 4;
            if (!judged && b != B_FULL_ONESHOT && b != B_BRIEF_ONESHOT) continue;
            for (int fd = 0; fd < 2; fd++) {
                uint32_t nid = judged ? 14 + 34 + 29 + (uint32_t)reps : 2;
                for (uint32_t k = 0; k < nid; k++) {
                    uint32_t id = id_class(&c->rng, k);
                    /* payload classes */
                    uint32_t pc = (k + L) % 4;
                    if (pc == 0) memset(payload_buf, 0xff, L + 4);
                    else if (pc == 1) memset(payload_buf, 0x00, L + 4);
                    else vp_rng_fill(&c->rng, payload_buf, L + 4);
                    for (int placement = 0; placement < (judged ? 3 : 1); placement++) {
                        uint8_t* p; uint8_t* s; uint8_t* heap = 0; uint8_t* src;
                        if (placement == 2 && (k % 7) != 3) continue;
                        uint8_t shadow_local[2100];
                        uint32_t total = H + L + pad;
                        uint32_t skk = (k & 1) ? ((g_place + H) & 7u) : ((k >> 1) & 7u);      /* start residue of the source: the payload's own in half of the cases */
                        src = vp_heap(L + skk) + skk;
                        uint8_t* srcblk = src - skk;                       /* exact-extent source: over-reads trap under ASan */
                        memcpy(src, payload_buf, L);
                        if (placement == 2) {
                            /* the source exactly 64 KiB or 128 KiB behind the place it is copied to (buffer pools with a power-of-two
                             * stride): distances computed in a narrow type would see "already in place" */
                            static uint8_t* far;
                            if (!far) far = vp_map(4 * 65536);
                            p = far + 1024 + g_place; s = shadow_local;
                            src = p + H + 65536 * (1 + (k & 1));
                            memcpy(src, payload_buf, L);
                            vp_rng_fill(&c->rng, p, total + 8);
                            memcpy(s, p, total);
                        } else if (placement == 0) {
                            vp_arena_fill(&a, &c->rng);
                            p = a.mem + PDU_BASE + g_place; s = a.shadow + PDU_BASE + g_place;
                            vp_rng_fill(&c->rng, p, total + 8);     /* prior message bytes independent of the placement */
                            memcpy(s, p, total + 8);
                        } else {
                            heap = vp_heap(total);               /* exact-extent message */
                            vp_rng_fill(&c->rng, heap, total);
                            p = heap; s = shadow_local; memcpy(s, p, total);
                        }
                        uint8_t before[16]; memcpy(before, p, H);
                        int ret;
                        vp_curop("can-build", bnames[b], placement ? "heap" : "arena", L);
                        vp_call(c);
                        run_builder(b, p, id, src, L, fd, &ret);
                        model(s, brief, id, payload_buf, L, fd, id <= 0x1fffffff, p);
                        c->evals++;
                        /* the payload handed in is an input: its bytes must be what they were */
                        if (L && memcmp(src, payload_buf, L) != 0 && vp_viol(c, "can", bnames[b], fd ? "fd" : "classic", "source-payload-modified", 0, 0)) {
                            o_s(c, "{\"len\":"); o_u(c, L); o_s(c, ",\"id\":\""); o_x(c, id); o_s(c, "\"}"); o_end(c);
                            memcpy(src, payload_buf, L);
                        }
                        vp_tr_bytes(c, p, total);
                        int bad = 0; size_t off = 0, cnt = 0, last = 0;
                        if (placement == 0) bad = vp_arena_diff(c, &a, &off, &cnt, &last);
                        else { bad = memcmp(p, s, total) != 0; if (bad) { for (off = 0; off < total && p[off] == s[off]; off++) {} cnt = 1; last = off; } }
                        if (bad) {
                            if (!judged) { longmis++; if (placement == 0) vp_arena_resync(&a); }
                            else {
                                size_t base = placement == 0 ? PDU_BASE + g_place : 0;
                                const char* reg = (off < base) ? "stray-write-before" : (off - base < H) ? "header" : (off - base < H + L) ? "payload" :
                                                  (off - base < total) ? "pad-bytes" : "beyond-message";
                                if (vp_viol(c, "can", bnames[b], fd ? "fd" : "classic", reg, placement ? "heap" : "arena", 0)) {
                                    o_s(c, "{\"len\":"); o_u(c, L); o_s(c, ",\"id\":\""); o_x(c, id); o_s(c, "\",\"first_off\":"); o_u(c, off >= base ? off - base : 0);
                                    o_s(c, ",\"nbytes\":"); o_u(c, cnt); o_s(c, ",\"header_before\":\""); o_hex(c, before, H);
                                    o_s(c, "\",\"expected\":\""); o_hex(c, s, total > 40 ? 40 : total); o_s(c, "\",\"actual\":\""); o_hex(c, p, total > 40 ? 40 : total); o_s(c, "\"}"); o_end(c);
                                }
                                if (placement == 0) vp_arena_resync(&a);
                            }
                        }
                        if (judged) {
                            nontrivial += (placement == 0 && k < 14 + 34 + 29);
                            if (brief) {
                                c->evals++;
                                if (ret != (int)total && vp_viol(c, "can", bnames[b], "return-value", 0, 0, 0)) {
                                    o_s(c, "{\"len\":"); o_u(c, L); o_s(c, ",\"returned\":"); o_u(c, (uint64_t)(int64_t)ret); o_s(c, ",\"expected\":"); o_u(c, total); o_s(c, "}"); o_end(c);
                                }
                            } else {
                                vp_call(c);
                                uint8_t rl = Avtp_Can_GetCanPayloadLength((Avtp_Can_t*)p);
                                vp_call(c);
                                uint8_t* pp = Avtp_Can_GetPayload((Avtp_Can_t*)p);
                                c->evals += 2;
                                vp_tr_u64(c, rl);
                                if (rl != L && vp_viol(c, "can", bnames[b], "payload-length-readback", 0, 0, 0)) {
                                    o_s(c, "{\"len\":"); o_u(c, L); o_s(c, ",\"read_back\":"); o_u(c, rl); o_s(c, ",\"header\":\""); o_hex(c, p, 16); o_s(c, "\"}"); o_end(c);
                                }
                                if (pp != p + 16 && vp_viol(c, "can", bnames[b], "payload-pointer", 0, 0, 0)) { o_s(c, "{\"delta\":"); o_u(c, (uint64_t)(pp - p)); o_s(c, "}"); o_end(c); }
                            }
                            if (samples && placement == 0 && k == 12 - (L % 3) && L % 9 == 5) {
                                samples--;
                                c->outn = 0; o_s(c, "X|{\"builder\":\""); o_s(c, bnames[b]); o_s(c, "\",\"variant\":\""); o_s(c, fd ? "fd" : "classic"); o_s(c, "\",\"len\":"); o_u(c, L);
                                o_s(c, ",\"id\":\""); o_x(c, id); o_s(c, "\",\"header_before\":\""); o_hex(c, before, H); o_s(c, "\",\"message_after\":\""); o_hex(c, p, total);
                                o_s(c, "\",\"return\":"); o_u(c, (uint64_t)(int64_t)(ret < 0 ? 0 : ret)); o_s(c, "}"); o_end(c);
                            }
                        } else longobs++;
                        /* cyclic transmitter: the same buffer is rebuilt without re-initialisation, same identifier and variant,
                         * another payload length (in particular one that rounds to the same quadlet count) */
                        if (judged && placement == 0 && k < 6) {
                            static const int dl[] = { -1, 1, -2, 2, -3, 3, 4, -5 };
                            for (int di = 0; di < 8; di++) {
                                int L2i = (int)L + dl[di];
                                if (L2i < 0 || L2i > 64) continue;
                                uint32_t L2 = (uint32_t)L2i, pad2 = (4 - L2 % 4) % 4, total2 = H + L2 + pad2;
                                uint8_t pl2[72]; vp_rng_fill(&c->rng, pl2, 72);
                                int ret2;
                                vp_call(c);
                                run_builder(b, p, id, pl2, L2, fd, &ret2);
                                model(s, brief, id, pl2, L2, fd, id <= 0x1fffffff, p);
                                c->evals++;
                                vp_tr_bytes(c, p, total2);
                                size_t o2, c2, l2;
                                if (vp_arena_diff(c, &a, &o2, &c2, &l2)) {
                                    size_t base = PDU_BASE + g_place;
                                    const char* reg = (o2 < base) ? "stray-write-before" : (o2 - base < H) ? "header" : (o2 - base < H + L2) ? "payload" : (o2 - base < total2) ? "pad-bytes" : "beyond-message";
                                    if (vp_viol(c, "can", bnames[b], fd ? "fd" : "classic", reg, "rebuilt-in-place", 0)) {
                                        o_s(c, "{\"first_len\":"); o_u(c, L); o_s(c, ",\"second_len\":"); o_u(c, L2); o_s(c, ",\"id\":\""); o_x(c, id); o_s(c, "\",\"first_off\":"); o_u(c, o2 >= base ? o2 - base : 0);
                                        o_s(c, ",\"expected\":\""); o_hex(c, s, total2 > 40 ? 40 : total2); o_s(c, "\",\"actual\":\""); o_hex(c, p, total2 > 40 ? 40 : total2); o_s(c, "\"}"); o_end(c);
                                    }
                                    vp_arena_resync(&a);
                                }
                                if (!brief) {
                                    vp_call(c);
                                    uint8_t rl = Avtp_Can_GetCanPayloadLength((Avtp_Can_t*)p);
                                    c->evals++;
                                    if (rl != L2 && vp_viol(c, "can", bnames[b], "payload-length-readback", "rebuilt-in-place", 0, 0)) { o_s(c, "{\"first_len\":"); o_u(c, L); o_s(c, ",\"second_len\":"); o_u(c, L2); o_s(c, ",\"read_back\":"); o_u(c, rl); o_s(c, "}"); o_end(c); }
                                }
                            }
                        }
                        vp_heap_free(srcblk);
                        if (heap) vp_heap_free(heap);
                    }
                }
            }
        }
    }
    vp_tr_mark(c, "can");
    vp_stat(c, "nontrivial", nontrivial);
    vp_stat(c, "can.long_lengths_observed", longobs);
    vp_stat(c, "can.long_lengths_model_mismatch", longmis);
    vp_finish(c, "canmon");
    return 0;
}
#endif
