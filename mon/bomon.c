/*
 * bomon.c - monitor for the byte-order helpers (C13).
 *
 * Two helper sets are linked in: "le_" = avtp/Byteorder.h compiled for this (little-endian)
 * host, "be_" = the same header compiled with __BYTE_ORDER__ forced to big-endian.
 *   native set : memory image of CpuToBeN(x) is x's big-endian byte sequence, CpuToLeN(x) its
 *                little-endian one; XToCpuN inverts CpuToXN; BswapN reverses bytes, involution.
 *   other set  : value-level contract of a big-endian host (CpuToBe = identity, CpuToLe = byte
 *                reversal, inverses) and mirror-image relation with the native set.
 * (The big-endian set's memory images are checked under the big-endian emulator by C14.)
 * VP_WIDTH: 16 | 32 | 64 ; VP_PART/VP_PARTS split the 32-bit sweep; VP_FULL32=1 exhaustive.
 */
#include "vp.h"

#define DECL(p) \
    uint16_t p##Bswap16(uint16_t); uint32_t p##Bswap32(uint32_t); uint64_t p##Bswap64(uint64_t); \
    uint16_t p##CpuToLe16(uint16_t); uint32_t p##CpuToLe32(uint32_t); uint64_t p##CpuToLe64(uint64_t); \
    uint16_t p##CpuToBe16(uint16_t); uint32_t p##CpuToBe32(uint32_t); uint64_t p##CpuToBe64(uint64_t); \
    uint16_t p##LeToCpu16(uint16_t); uint32_t p##LeToCpu32(uint32_t); uint64_t p##LeToCpu64(uint64_t); \
    uint16_t p##BeToCpu16(uint16_t); uint32_t p##BeToCpu32(uint32_t); uint64_t p##BeToCpu64(uint64_t); \
    int p##selected_big_endian(void); unsigned p##const_calls(uint64_t*, uint64_t*, unsigned char*, unsigned char*, unsigned); unsigned p##argevals(unsigned, const char**);
DECL(le_) DECL(be_)

static vp_ctx_t g_ctx;
static uint64_t g_nontrivial;

static uint64_t rev(uint64_t x, int n) { uint64_t r = 0; for (int i = 0; i < n; i++) { r = (r << 8) | (x & 0xff); x >>= 8; } return r; }

static void fail(vp_ctx_t* c, const char* set, const char* fn, int bits, const char* what, uint64_t x, uint64_t got, uint64_t exp)
{
    char w[4] = { (char)('0' + bits / 10), (char)('0' + bits % 10), 0, 0 };
    if (vp_viol(c, "byteorder", set, fn, w, what, 0)) {
        o_s(c, "{\"x\":\""); o_x(c, x); o_s(c, "\",\"got\":\""); o_x(c, got); o_s(c, "\",\"expected\":\""); o_x(c, exp); o_s(c, "\"}"); o_end(c);
    }
}

/* memory image of an n-byte object holding v on THIS host */
static uint64_t image_be(uint64_t v, int n)   /* returns the bytes read in address order as a big-endian number */
{
    uint8_t b[8]; uint64_t r = 0;
    if (n == 2) { uint16_t t = (uint16_t)v; memcpy(b, &t, 2); }
    else if (n == 4) { uint32_t t = (uint32_t)v; memcpy(b, &t, 4); }
    else { memcpy(b, &v, 8); }
    for (int i = 0; i < n; i++) r = (r << 8) | b[i];
    return r;
}

#define CHECK_WIDTH(BITS, T, N) \
static void check##BITS(vp_ctx_t* c, T x) \
{ \
    uint64_t X = x, R = rev(x, N); \
    /* native (little-endian-selected) set: memory images */ \
    T be = le_CpuToBe##BITS(x), le = le_CpuToLe##BITS(x); \
    c->evals += 12; c->ops += 15; \
    if (image_be(be, N) != X) fail(c, "native", "CpuToBe", BITS, "memory-image-not-big-endian", X, image_be(be, N), X); \
    if (image_be(le, N) != R) fail(c, "native", "CpuToLe", BITS, "memory-image-not-little-endian", X, image_be(le, N), R); \
    if (le_BeToCpu##BITS(be) != x) fail(c, "native", "BeToCpu", BITS, "does-not-invert-CpuToBe", X, le_BeToCpu##BITS(be), X); \
    if (le_LeToCpu##BITS(le) != x) fail(c, "native", "LeToCpu", BITS, "does-not-invert-CpuToLe", X, le_LeToCpu##BITS(le), X); \
    if ((uint64_t)le_BeToCpu##BITS(x) != R) fail(c, "native", "BeToCpu", BITS, "value", X, le_BeToCpu##BITS(x), R); \
    if ((uint64_t)le_LeToCpu##BITS(x) != X) fail(c, "native", "LeToCpu", BITS, "value", X, le_LeToCpu##BITS(x), X); \
    if ((uint64_t)le_Bswap##BITS(x) != R) fail(c, "native", "Bswap", BITS, "does-not-reverse-bytes", X, le_Bswap##BITS(x), R); \
    if (le_Bswap##BITS(le_Bswap##BITS(x)) != x) fail(c, "native", "Bswap", BITS, "not-an-involution", X, le_Bswap##BITS(le_Bswap##BITS(x)), X); \
    /* big-endian-selected set: value-level contract of a big-endian host + mirror image */ \
    if ((uint64_t)be_CpuToBe##BITS(x) != X) fail(c, "bigendian-branch", "CpuToBe", BITS, "not-identity-on-big-endian-host", X, be_CpuToBe##BITS(x), X); \
    if ((uint64_t)be_BeToCpu##BITS(x) != X) fail(c, "bigendian-branch", "BeToCpu", BITS, "not-identity-on-big-endian-host", X, be_BeToCpu##BITS(x), X); \
    if ((uint64_t)be_CpuToLe##BITS(x) != R) fail(c, "bigendian-branch", "CpuToLe", BITS, "not-byte-reversal-on-big-endian-host", X, be_CpuToLe##BITS(x), R); \
    if ((uint64_t)be_LeToCpu##BITS(x) != R) fail(c, "bigendian-branch", "LeToCpu", BITS, "not-byte-reversal-on-big-endian-host", X, be_LeToCpu##BITS(x), R); \
    if (be_CpuToBe##BITS(x) != le_CpuToLe##BITS(x) || be_CpuToLe##BITS(x) != le_CpuToBe##BITS(x) || \
        be_BeToCpu##BITS(x) != le_LeToCpu##BITS(x) || be_LeToCpu##BITS(x) != le_BeToCpu##BITS(x)) \
        fail(c, "mirror", "sets", BITS, "not-mirror-images", X, 0, 0); \
    if ((uint64_t)be_Bswap##BITS(x) != R) fail(c, "bigendian-branch", "Bswap", BITS, "does-not-reverse-bytes", X, be_Bswap##BITS(x), R); \
    if (R != X) g_nontrivial++; \
}
CHECK_WIDTH(16, uint16_t, 2)
CHECK_WIDTH(32, uint32_t, 4)
CHECK_WIDTH(64, uint64_t, 8)

static void perms(vp_ctx_t* c, uint8_t* a, int k)
{
    if (k == 8) { uint64_t v = 0; for (int i = 0; i < 8; i++) v = (v << 8) | a[i]; check64(c, v); return; }
    for (int i = k; i < 8; i++) { uint8_t t = a[k]; a[k] = a[i]; a[i] = t; perms(c, a, k + 1); t = a[k]; a[k] = a[i]; a[i] = t; }
}

int main(void)
{
    vp_ctx_t* c = &g_ctx;
    uint64_t seed = vp_cfg_u64("SEED", 1);
    uint64_t width = vp_cfg_u64("WIDTH", 16);
    uint64_t part = vp_cfg_u64("PART", 0), parts = vp_cfg_u64("PARTS", 1);
    uint64_t full32 = vp_cfg_u64("FULL32", 0);
    uint64_t nrand = vp_cfg_u64("RANDOM", 1000000);
    vp_ctx_init(c, seed, 0xB0 + width + part * 7);
    o_s(c, "BEGIN|bomon|width="); o_u(c, width); o_end(c);
    c->evals++;
    if (le_selected_big_endian() != 0 || be_selected_big_endian() != 1) {
        o_s(c, "ERR|helper sets were not compiled for the intended byte orders"); o_end(c); return 2;
    }
    if (width == 16) {
        for (uint32_t x = 0; x < 65536; x++) check16(c, (uint16_t)x);
    } else if (width == 32) {
        if (full32) {
            uint64_t lo = part * (0x100000000ull / parts), hi = (part + 1 == parts) ? 0x100000000ull : (part + 1) * (0x100000000ull / parts);
            for (uint64_t x = lo; x < hi; x++) check32(c, (uint32_t)x);
        } else {
            /* 2^24 strided values (every stride offset differs by seed), structured values, random */
            uint32_t off = (uint32_t)(vp_rng_next(&c->rng) & 0xff);
            for (uint64_t x = part; x < (1u << 24); x += parts) check32(c, (uint32_t)((x << 8) | ((off + x * 37) & 0xff)));
            for (uint32_t b = 0; b < 32; b++) { check32(c, 1u << b); check32(c, ~(1u << b)); }
            for (uint32_t l = 0; l < 4; l++) for (uint32_t v = 0; v < 256; v++) check32(c, v << (8 * l));
            for (uint64_t i = 0; i < nrand / parts; i++) check32(c, (uint32_t)vp_rng_next(&c->rng));
        }
    } else {
        if (part == 0) {
            uint8_t a[8] = { 0x01, 0x23, 0x45, 0x67, 0x89, 0xab, 0xcd, 0xef };
            perms(c, a, 0);                                  /* all 8! lane permutations of distinct markers */
            for (uint32_t b = 0; b < 64; b++) { check64(c, (uint64_t)1 << b); check64(c, ~((uint64_t)1 << b)); }
            for (uint32_t l = 0; l < 8; l++) for (uint64_t v = 0; v < 256; v++) check64(c, v << (8 * l));
            for (uint32_t l = 0; l < 8; l++) check64(c, ~((uint64_t)0xff << (8 * l)));
        }
        for (uint64_t i = 0; i < nrand / parts; i++) check64(c, vp_rng_next(&c->rng));
    }
    if (part == 0 && width == 16) {
        /* literal-argument calls (constant-folding / __builtin_constant_p paths), both helper sets */
        static uint64_t arg[512], res[512]; static unsigned char fn[512], bits[512];
        static const char* const fnn[] = { "Bswap", "CpuToLe", "CpuToBe", "LeToCpu", "BeToCpu" };
        for (int set = 0; set < 2; set++) {
            unsigned n = set ? be_const_calls(arg, res, fn, bits, 512) : le_const_calls(arg, res, fn, bits, 512);
            for (unsigned i = 0; i < n; i++) {
                int nb = bits[i] / 8;
                uint64_t R = rev(arg[i], nb), exp;
                int swaps = (fn[i] == 0) || (set == 0 ? (fn[i] == 2 || fn[i] == 4) : (fn[i] == 1 || fn[i] == 3));
                exp = swaps ? R : arg[i];
                c->evals++; c->ops++;
                if (res[i] != exp) fail(c, set ? "bigendian-branch" : "native", fnn[fn[i]], bits[i], "wrong-result-for-constant-argument", arg[i], res[i], exp);
            }
            vp_stat(c, set ? "bo.const_calls_bigendian_branch" : "bo.const_calls_native", n);
        }
    }
    if (part == 0) {
        c->outn = 0; o_s(c, "X|{\"width\":"); o_u(c, width); o_s(c, ",\"x\":\"0x0123456789abcdef\",\"native_CpuToBe64_image\":\""); o_x(c, image_be(le_CpuToBe64(0x0123456789abcdefull), 8));
        o_s(c, "\",\"native_CpuToLe64_image\":\""); o_x(c, image_be(le_CpuToLe64(0x0123456789abcdefull), 8)); o_s(c, "\",\"bigendian_branch_CpuToLe64_value\":\""); o_x(c, be_CpuToLe64(0x0123456789abcdefull)); o_s(c, "\"}"); o_end(c);
    }
    for (int set = 0; set < 2; set++) {
        const char* nm = 0; unsigned k;
        for (unsigned i = 0; (k = set ? be_argevals(i, &nm) : le_argevals(i, &nm)) != 0; i++) {
            c->evals++;
            if (k != 1 && vp_viol(c, "byteorder", set ? "bigendian-branch" : "native", nm, "argument-not-evaluated-exactly-once", 0, 0)) { o_s(c, "{\"evaluations\":"); o_u(c, k); o_s(c, "}"); o_end(c); }
        }
    }
    if (vp_cfg_u64("COUNTNT", 1)) vp_stat(c, "nontrivial", g_nontrivial);
    vp_finish(c, "bomon");
    return 0;
}
