/*
 * vp.h - common definitions for the Open1722 runtime monitors.
 *
 * Everything that is compiled into the "monitored world" (library sources, generated
 * bindings, reference models, monitors) uses only <stdint.h>, <stddef.h>, <string.h>
 * (memcpy/memset/memcmp/strlen/strcmp) and the small platform interface below, so the same
 * sources can be built natively (gcc/clang, sanitizers) and through the big-endian
 * emulation pipeline (tools/beify.py).  The platform interface exchanges only bytes and
 * register scalars with native code.
 */
#ifndef VP_H
#define VP_H

#include <stdint.h>
#include <stddef.h>
#include <string.h>

/* ------------------------------------------------------------------ platform (native) */
void        vp_write(const char* buf, size_t n);            /* monitor output channel            */
uint64_t    vp_cfg_u64(const char* name, uint64_t dflt);     /* VP_<NAME> from the environment    */
const char* vp_cfg_str(const char* name, const char* dflt);
uint8_t*    vp_map(size_t n);                               /* zeroed, page aligned, read/write  */
void        vp_unmap(uint8_t* p, size_t n);
uint8_t*    vp_guard_end(size_t n);                         /* n bytes; byte n is inaccessible   */
uint8_t*    vp_guard_begin(size_t n);                       /* n bytes; byte -1 is inaccessible  */
void        vp_guard_free(uint8_t* p, size_t n);
uint8_t*    vp_map_at(uint64_t addr, size_t n);             /* at exactly this address, or NULL          */
void        vp_readonly(uint8_t* page, size_t n, int on);   /* pages from vp_map(): read-only on/off          */
uint8_t*    vp_heap(size_t n);                              /* malloc(n): exact extent under ASan */
void        vp_heap_free(uint8_t* p);
int         vp_try(void (*fn)(void*), void* arg);           /* 0, or the fatal signal caught     */
void        vp_curop(const char* a, const char* b, const char* c, uint64_t n); /* current-op record */
void        vp_yield(uint64_t r);                           /* scheduling noise for thrmon       */

/* ------------------------------------------------------------------ PRNG (xoshiro256**) */
typedef struct { uint64_t s[4]; const uint8_t* feed; size_t feed_n; } vp_rng_t;   /* feed: bytes of a fuzz input take the place of the generator while they last */
void     vp_rng_seed(vp_rng_t* r, uint64_t seed, uint64_t stream);
uint64_t vp_rng_next(vp_rng_t* r);
static inline uint64_t vp_rng_below(vp_rng_t* r, uint64_t n) { return n ? vp_rng_next(r) % n : 0; }
void     vp_rng_fill(vp_rng_t* r, uint8_t* p, size_t n);

/* ------------------------------------------------------------------ context / output */
#define VP_OUT_MAX   16384
#define VP_KEYS_MAX  2048

typedef struct vp_ctx {
    vp_rng_t rng;
    uint64_t seed;
    /* line buffer */
    char     out[VP_OUT_MAX];
    size_t   outn;
    /* violation de-duplication */
    uint64_t key_hash[VP_KEYS_MAX];
    uint32_t key_cnt[VP_KEYS_MAX];
    uint64_t nviol;            /* violations observed (all occurrences)                 */
    uint64_t nviol_keys;       /* distinct keys                                         */
    /* transcript */
    uint64_t th;               /* running FNV-1a hash                                   */
    uint64_t tn;               /* items hashed                                          */
    int      tdump;            /* also print the transcript as text                     */
    /* counters */
    uint64_t evals;            /* oracle comparisons made                               */
    uint64_t ops;              /* library calls made                                    */
    uint64_t bytes_cmp;        /* arena bytes compared                                  */
    int      quiet;            /* suppress output (thread workers)                      */
    int      tid;              /* thread id for thrmon                                  */
    void   (*hook)(struct vp_ctx*); /* called before every library call (thrmon tickets/noise) */
} vp_ctx_t;

void vp_ctx_init(vp_ctx_t* c, uint64_t seed, uint64_t stream);

/* output: build one line, then o_end() flushes it */
void o_s(vp_ctx_t* c, const char* s);
void o_u(vp_ctx_t* c, uint64_t v);
void o_x(vp_ctx_t* c, uint64_t v);
void o_hex(vp_ctx_t* c, const uint8_t* p, size_t n);
void o_end(vp_ctx_t* c);
extern int vp_abort_on_violation;                           /* coverage-guided targets: a V| line ends the process (abort) */

/* S|name|value  statistics line */
void vp_stat(vp_ctx_t* c, const char* name, uint64_t v);
void vp_stat2(vp_ctx_t* c, const char* name, const char* sub, uint64_t v);

/*
 * Violations.  vp_viol() starts a "V|<key>|" line if this key has been reported fewer than
 * VP_VIOL_DETAIL times (returns 1: the caller appends detail text and calls o_end()),
 * otherwise only counts it (returns 0).  Keys are built from up to 6 parts joined by '|'.
 */
#define VP_VIOL_DETAIL 2
int  vp_viol(vp_ctx_t* c, const char* k1, const char* k2, const char* k3, const char* k4, const char* k5, const char* k6);
void vp_finish(vp_ctx_t* c, const char* engine);   /* prints VC| totals, S| totals, END line */

/* transcript */
void vp_tr_u64(vp_ctx_t* c, uint64_t v);
void vp_tr_bytes(vp_ctx_t* c, const uint8_t* p, size_t n);
void vp_tr_tag(vp_ctx_t* c, const char* tag);
void vp_tr_mark(vp_ctx_t* c, const char* chunk);   /* H|chunk|hash|items ; resets */

extern volatile unsigned long vp_progress_counter;      /* bumped before every library call: the progress watchdog reads it */
#ifdef VP_PROGRESS      /* single-threaded monitors that start the progress watchdog define this before including vp.h */
#define VP_PROGRESS_TICK() ((void)(vp_progress_counter++))
#else
#define VP_PROGRESS_TICK() ((void)0)
#endif
static inline void vp_call(vp_ctx_t* c) { c->ops++; VP_PROGRESS_TICK(); if (c->hook) c->hook(c); }
void        vp_watchdog_start(void);                        /* no library call started for 14-21 CPU seconds: reported as a hang */

/* ------------------------------------------------------------------ arena (write monitor) */
typedef struct {
    uint8_t* mem;      /* the memory the library sees      */
    uint8_t* shadow;   /* what the model says it must hold */
    size_t   n;
} vp_arena_t;

void vp_arena_new(vp_arena_t* a, size_t n);
void vp_arena_del(vp_arena_t* a);
void vp_arena_fill(vp_arena_t* a, vp_rng_t* r);                 /* random pattern, mem == shadow */
/* compare; returns 0 if equal, else 1 and sets *off to first differing offset, *cnt to count */
int  vp_arena_diff(vp_ctx_t* c, const vp_arena_t* a, size_t* off, size_t* cnt, size_t* last);
void vp_arena_resync(vp_arena_t* a);                             /* shadow := mem (after a report) */

/* ------------------------------------------------------------------ reference bit-field model */
uint64_t bf_get(const uint8_t* buf, uint32_t pos, uint32_t width);
void     bf_set(uint8_t* buf, uint32_t pos, uint32_t width, uint64_t v);
static inline uint64_t bf_mask(uint32_t width) { return width >= 64 ? ~(uint64_t)0 : (((uint64_t)1 << width) - 1); }

/* value / buffer classes shared by the monitors */
#define VP_NVALCLASS 14
uint64_t    vp_value_class(vp_rng_t* r, uint32_t cls, uint32_t width);
const char* vp_value_class_name(uint32_t cls);

#endif
