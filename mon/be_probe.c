/*
 * be_probe.c - canary for the big-endian emulator and memory-image check of the big-endian
 * branch of avtp/Byteorder.h.  Compiled through tools/beify.py on every C14 run; its output
 * must show big-endian images, else the run is a harness failure (exit 2), never a verdict.
 */
#include "vp.h"
#include "avtp/Byteorder.h"

static vp_ctx_t g_ctx;
static const uint32_t g_table32[2] = { 0x01020304u, 0xA1B2C3D4u };
static const uint16_t g_table16[2] = { 0x0102, 0xFFEE };
static const uint64_t g_table64[1] = { 0x0102030405060708ull };
struct probe { uint8_t a; uint16_t b; uint32_t c; uint64_t d; float f; double g; };

static void emit(vp_ctx_t* c, const char* tag, const void* p, size_t n)
{
    o_s(c, "P|"); o_s(c, tag); o_s(c, "|"); o_hex(c, (const uint8_t*)p, n); o_end(c);
}

int main(void)
{
    vp_ctx_t* c = &g_ctx;
    vp_ctx_init(c, 1, 1);
    o_s(c, "BEGIN|be_probe"); o_end(c);
#if __BYTE_ORDER__ == __ORDER_BIG_ENDIAN__
    o_s(c, "P|frontend|big"); o_end(c);
#else
    o_s(c, "P|frontend|little"); o_end(c);
#endif
    uint16_t h = 0x1122; uint32_t w = 0x11223344u; uint64_t q = 0x1122334455667788ull;
    float f = 1.0f; double g = -2.0;
    emit(c, "u16", &h, 2); emit(c, "u32", &w, 4); emit(c, "u64", &q, 8); emit(c, "f32", &f, 4); emit(c, "f64", &g, 8);
    struct probe s; memset(&s, 0, sizeof s); s.a = 0x7f; s.b = 0x0102; s.c = 0x03040506u; s.d = 0x0708090a0b0c0d0eull; s.f = 1.0f; s.g = -2.0;
    emit(c, "struct", &s, sizeof s);
    emit(c, "tab32", g_table32, 8); emit(c, "tab16", g_table16, 4); emit(c, "tab64", g_table64, 8);
    uint8_t buf[8] = { 1, 2, 3, 4, 5, 6, 7, 8 }; uint32_t v; memcpy(&v, buf, 4);
    o_s(c, "P|memcpy-load|"); o_x(c, v); o_end(c);
    o_s(c, "P|value-arith|"); o_x(c, (uint64_t)g_table32[0] + 1); o_end(c);
    /* memory images of the big-endian helper set (C13's third clause, executed on big-endian images) */
    uint64_t bad = 0, n = 0;
    for (uint32_t x = 0; x < 65536; x++) {
        uint16_t be = Avtp_CpuToBe16((uint16_t)x), le = Avtp_CpuToLe16((uint16_t)x);
        uint8_t b[2];
        memcpy(b, &be, 2); if (b[0] != (x >> 8) || b[1] != (x & 0xff)) bad++;
        memcpy(b, &le, 2); if (b[1] != (x >> 8) || b[0] != (x & 0xff)) bad++;
        if (Avtp_BeToCpu16(be) != x || Avtp_LeToCpu16(le) != x) bad++;
        n += 3;
    }
    for (uint32_t i = 0; i < 200000; i++) {
        uint64_t x = vp_rng_next(&c->rng);
        uint32_t x32 = (uint32_t)x;
        uint32_t be = Avtp_CpuToBe32(x32), le = Avtp_CpuToLe32(x32);
        uint64_t be64 = Avtp_CpuToBe64(x), le64 = Avtp_CpuToLe64(x);
        uint8_t b[8];
        memcpy(b, &be, 4); for (int k = 0; k < 4; k++) if (b[k] != (uint8_t)(x32 >> (8 * (3 - k)))) bad++;
        memcpy(b, &le, 4); for (int k = 0; k < 4; k++) if (b[k] != (uint8_t)(x32 >> (8 * k))) bad++;
        memcpy(b, &be64, 8); for (int k = 0; k < 8; k++) if (b[k] != (uint8_t)(x >> (8 * (7 - k)))) bad++;
        memcpy(b, &le64, 8); for (int k = 0; k < 8; k++) if (b[k] != (uint8_t)(x >> (8 * k))) bad++;
        if (Avtp_BeToCpu32(be) != x32 || Avtp_LeToCpu32(le) != x32 || Avtp_BeToCpu64(be64) != x || Avtp_LeToCpu64(le64) != x) bad++;
        n += 5;
    }
    c->evals = n;
    if (bad && vp_viol(c, "byteorder", "bigendian-branch", "memory-image-under-emulator", 0, 0, 0)) { o_s(c, "{\"bad\":"); o_u(c, bad); o_s(c, "}"); o_end(c); }
    vp_finish(c, "be_probe");
    return 0;
}
