/*
 * lst_common.h - shared driver for the example-listener monitors (C18) and the tunnel (C19).
 *
 * Each lst_<listener>.c includes the example's source with main/recv/write renamed, supplies
 * the socket helpers of examples/common, and defines:
 *     static const char* LST_NAME;  static int lst_nmodes(void);  static const char* lst_mode_name(int);
 *     static void lst_make_sequence(vp_rng_t*, int mode, uint64_t idx, seq_t*);   datagram script
 *     static int  lst_child(int mode, const seq_t*);       runs in a forked child, returns exit code
 * The parent forks one child per sequence (one defect cannot mask the next), captures its stderr
 * and prints one F| line per abnormal child.  Per datagram CPU budget via ITIMER_VIRTUAL.
 */
#define _GNU_SOURCE
#include <stdio.h>
#include <stdlib.h>
#include <string.h>
#include <unistd.h>
#include <errno.h>
#include <signal.h>
#include <fcntl.h>
#include <sys/types.h>
#include <sys/socket.h>
#include <sys/wait.h>
#include <sys/time.h>
#include <sys/resource.h>
#include "vp.h"

#define MAX_DGRAMS 8
#define DGRAM_MAX  1600

typedef struct {
    int n;                               /* hostile datagrams                     */
    uint16_t len[MAX_DGRAMS];
    uint8_t  data[MAX_DGRAMS][DGRAM_MAX];
    char     tmpl[64];                   /* template / mutation name (for keys)   */
    int      repeat;                     /* soak: the first rep_n datagrams (all when 0) are fed 1 + repeat times, then the rest once */
    int      rep_n;
    uint8_t  expect_p1[MAX_DGRAMS];      /* 1 + number of output units (frames) this datagram must produce; 0: not judged */
} seq_t;

enum { EX_OK = 0, EX_HANG = 77, EX_SENTINEL = 78, EX_LOOP = 79, EX_HARNESS = 80, EX_REPLAYED = 81, EX_STACK = 82, EX_LOST = 83, EX_TERMINATED = 84 };

/* ---- state shared with the wrapped recv()/write() */
static const seq_t* g_seq;
static int g_next;                       /* next datagram to feed                 */
static int g_feed_fd = -1;               /* our end of the socket pair            */
static volatile int g_cur_dgram = -1;
static uint8_t g_sentinel[DGRAM_MAX]; static int g_sentinel_len;
static int g_in_sentinel;
static long g_writes_this_dgram;
/* reference output of the sentinel datagram alone (learned from the listener itself, so that the text format is not part of the oracle) */
static int g_learn_fd = -1, g_variant_force = -1, g_cur_mode, g_cur_variant;
static char g_ref_out[8][2][2048];
static int g_rounds_left = -1;           /* soak rounds still to feed                */
static long g_fed;                       /* datagrams fed so far                     */

static void budget_start(void)
{
    struct itimerval it; memset(&it, 0, sizeof it);
    it.it_value.tv_sec = 2;              /* CPU seconds per datagram (ITIMER_VIRTUAL: immune to machine load) */
    setitimer(ITIMER_VIRTUAL, &it, 0);
}
static void budget_stop(void) { struct itimerval it; memset(&it, 0, sizeof it); setitimer(ITIMER_VIRTUAL, &it, 0); }

static void on_vtalrm(int sig)
{
    (void)sig;
    char b[96]; int n = snprintf(b, sizeof b, "VP-HANG: datagram %d exceeded its CPU budget\n", g_cur_dgram);
    if (write(2, b, (size_t)n)) {}
    _exit(EX_HANG);
}

static void on_blocked(int sig)
{
    (void)sig;
    const char* m = "VP-BLOCKED: the receive path made no progress for 300 s of wall-clock time without using CPU (blocked in a system call)\n";
    if (write(2, m, strlen(m))) {}
    _exit(85);
}

/* feed the next scripted datagram into the socket pair */
static int feed_next(void)
{
    if (g_rounds_left < 0) g_rounds_left = g_seq->repeat;
    int rn = (g_seq->repeat && g_seq->rep_n > 0 && g_seq->rep_n < g_seq->n) ? g_seq->rep_n : g_seq->n;
    if (g_next >= rn && g_rounds_left > 0 && g_seq->n > 0) { g_rounds_left--; g_next = 0; }
    if (g_next < (g_rounds_left > 0 ? rn : g_seq->n)) {
        g_fed++;
        g_cur_dgram = g_next;
        if (send(g_feed_fd, g_seq->data[g_next], g_seq->len[g_next], 0) < 0) _exit(EX_HARNESS);
        g_next++;
        g_writes_this_dgram = 0;
        budget_start();
        return 1;
    }
    if (!g_in_sentinel && g_sentinel_len >= 0) {
        g_in_sentinel = 1; g_cur_dgram = 100;
        if (send(g_feed_fd, g_sentinel, (size_t)g_sentinel_len, 0) < 0) _exit(EX_HARNESS);
        g_writes_this_dgram = 0;
        budget_start();
        return 1;
    }
    return 0;
}

static void hexout(FILE* f, const uint8_t* p, size_t n) { for (size_t i = 0; i < n; i++) fprintf(f, "%02x", p[i]); }

static void json_escape(FILE* f, const char* s, size_t n)
{
    for (size_t i = 0; i < n; i++) {
        unsigned char ch = (unsigned char)s[i];
        if (ch == '"' || ch == '\\') fprintf(f, "\\%c", ch);
        else if (ch == '\n') fputs("\\n", f);
        else if (ch < 32 || ch > 126) fputc('.', f);
        else fputc(ch, f);
    }
}

/* ---- parent side: fork server */
static const char* lst_name(void);
static int  lst_nmodes(void);
static const char* lst_mode_name(int);
static void lst_make_sequence(vp_rng_t*, int mode, uint64_t idx, seq_t*);
static int  lst_child(int mode, const seq_t*);

static int lst_driver_main(void)
{
    uint64_t seed = vp_cfg_u64("SEED", 1), count = vp_cfg_u64("COUNT", 200), first = vp_cfg_u64("FIRST", 0);
    int only_mode = (int)vp_cfg_u64("LMODE", 99);
    const char* replay = vp_cfg_str("REPLAY", "");
    static seq_t seq;
    vp_rng_t rng;
    uint64_t ran = 0, abnormal = 0, templates_seen = 0; uint64_t thash[256]; memset(thash, 0, sizeof thash);
    signal(SIGPIPE, SIG_IGN);
    printf("BEGIN|lstmon|%s|seed=%llu\n", lst_name(), (unsigned long long)seed);
#ifdef LST_LEARN_REFERENCE
    for (int mode = 0; mode < lst_nmodes() && mode < 8; mode++) for (int variant = 0; variant < 2; variant++) {
        int lp[2]; if (pipe(lp) < 0) return 2;
        fflush(stdout);
        pid_t lpid = fork();
        if (lpid < 0) return 2;
        if (lpid == 0) {
            close(lp[0]);
            int dn = open("/dev/null", O_WRONLY); if (dn >= 0) { dup2(dn, 1); dup2(dn, 2); close(dn); }
            struct sigaction sa; memset(&sa, 0, sizeof sa); sa.sa_handler = on_vtalrm; sigaction(SIGVTALRM, &sa, 0);
            memset(&seq, 0, sizeof seq); strcpy(seq.tmpl, "reference-run");
            g_seq = &seq; g_next = 0; g_in_sentinel = 0; g_rounds_left = -1; g_fed = 0;
            g_learn_fd = lp[1]; g_variant_force = variant;
            _exit(lst_child(mode, &seq));
        }
        close(lp[1]);
        size_t rn = 0; ssize_t rk;
        while ((rk = read(lp[0], g_ref_out[mode][variant] + rn, sizeof g_ref_out[mode][variant] - 1 - rn)) > 0) rn += (size_t)rk;
        g_ref_out[mode][variant][rn] = 0;
        close(lp[0]);
        int lst = 0; waitpid(lpid, &lst, 0);
        if (!(WIFEXITED(lst) && WEXITSTATUS(lst) == 0) || rn == 0) {
            printf("F|{\"listener\":\"%s\",\"mode\":\"%s\",\"mode_index\":%d,\"template\":\"reference-run\",\"index\":0,\"status\":\"exit\",\"code\":%d,\"datagrams\":[],\"lengths\":[],\"stderr\":\"the valid datagram alone was not processed\"}\n",
                   lst_name(), lst_mode_name(mode), mode, WIFEXITED(lst) && WEXITSTATUS(lst) ? WEXITSTATUS(lst) : EX_SENTINEL);
        }
    }
#endif
    for (int mode = 0; mode < lst_nmodes(); mode++) {
        if (only_mode != 99 && only_mode != mode) continue;
        for (uint64_t i = 0; i < count; i++) {
            uint64_t idx = first + i;
            vp_rng_seed(&rng, seed, 0x9000 + (uint64_t)mode * 1000003 + idx);
            memset(&seq, 0, sizeof seq);
            lst_make_sequence(&rng, mode, idx, &seq);
            if (replay[0]) {      /* replay: one datagram given as hex */
                seq.n = 1; size_t L = strlen(replay) / 2; if (L > DGRAM_MAX) L = DGRAM_MAX;
                for (size_t k = 0; k < L; k++) { unsigned v; sscanf(replay + 2 * k, "%2x", &v); seq.data[0][k] = (uint8_t)v; }
                seq.len[0] = (uint16_t)L; strcpy(seq.tmpl, "replay");
            }
            if (vp_cfg_str("CORPUS", "")[0] && i < vp_cfg_u64("CORPUS_N", 64)) {      /* seed corpus for the fuzz stage */
                for (int d = 0; d < seq.n; d++) {
                    char pth[512]; snprintf(pth, sizeof pth, "%s/%s_%d_%llu_%d", vp_cfg_str("CORPUS", ""), lst_name(), mode, (unsigned long long)idx, d);
                    FILE* cf = fopen(pth, "wb"); if (cf) { fputc(mode, cf); fwrite(seq.data[d], 1, seq.len[d], cf); fclose(cf); }
                }
                continue;
            }
            uint64_t th = 1469598103934665603ull; for (const char* q = seq.tmpl; *q; q++) th = (th ^ (uint8_t)*q) * 1099511628211ull;
            if (!thash[th % 256]) { thash[th % 256] = 1; templates_seen++; }
            int ep[2]; if (pipe(ep) < 0) return 2;
            fflush(stdout);
            pid_t pid = fork();
            if (pid < 0) return 2;
            if (pid == 0) {
                close(ep[0]);
                dup2(ep[1], 2); close(ep[1]);
                int dn = open("/dev/null", O_WRONLY); if (dn >= 0) { dup2(dn, 1); close(dn); }
                struct rlimit rl = { 20, 20 }; if (seq.repeat) rl.rlim_cur = rl.rlim_max = 60; setrlimit(RLIMIT_CPU, &rl);
                struct sigaction sa; memset(&sa, 0, sizeof sa); sa.sa_handler = on_vtalrm; sigaction(SIGVTALRM, &sa, 0);
                signal(SIGALRM, on_blocked); alarm(300);      /* backstop for a receive path that blocks without using CPU */
                g_seq = &seq; g_next = 0; g_in_sentinel = 0; g_rounds_left = -1; g_fed = 0;
                int rc = lst_child(mode, &seq);
                _exit(rc);
            }
            close(ep[1]);
            static char errbuf[24576]; size_t en = 0; ssize_t k;
            while ((k = read(ep[0], errbuf + en, sizeof errbuf - 1 - en)) > 0) { en += (size_t)k; if (en >= sizeof errbuf - 1) break; }
            if (en >= sizeof errbuf - 1) { char junk[4096]; while (read(ep[0], junk, sizeof junk) > 0) {} }
            close(ep[0]);
            int st = 0; waitpid(pid, &st, 0);
            ran++;
            int bad = !(WIFEXITED(st) && WEXITSTATUS(st) == 0);
            if (bad) {
                abnormal++;
                printf("F|{\"listener\":\"%s\",\"mode\":\"%s\",\"mode_index\":%d,\"template\":\"%s\",\"index\":%llu,", lst_name(), lst_mode_name(mode), mode, seq.tmpl, (unsigned long long)idx);
                if (WIFSIGNALED(st)) printf("\"status\":\"signal\",\"signal\":%d,", WTERMSIG(st));
                else printf("\"status\":\"exit\",\"code\":%d,", WEXITSTATUS(st));
                printf("\"datagrams\":[");
                for (int d = 0; d < seq.n; d++) { printf("%s\"", d ? "," : ""); hexout(stdout, seq.data[d], seq.len[d] > 96 ? 96 : seq.len[d]); printf("%s\"", seq.len[d] > 96 ? "..." : ""); }
                printf("],\"lengths\":[");
                for (int d = 0; d < seq.n; d++) printf("%s%d", d ? "," : "", seq.len[d]);
                printf("],\"stderr\":\"");
                json_escape(stdout, errbuf, en > 6000 ? 6000 : en);
                printf("\"}\n");
            } else if (i < 2) {
                printf("X|{\"listener\":\"%s\",\"mode\":\"%s\",\"template\":\"%s\",\"datagrams\":%d,\"first_len\":%d,\"first_prefix\":\"", lst_name(), lst_mode_name(mode), seq.tmpl, seq.n, seq.n ? seq.len[0] : 0);
                if (seq.n) hexout(stdout, seq.data[0], seq.len[0] > 40 ? 40 : seq.len[0]);
                printf("\",\"outcome\":\"survived, sentinel handled\"}\n");
            }
            if (replay[0]) break;
        }
    }
    printf("S|evals|%llu\nS|ops|%llu\nS|lst.sequences|%llu\nS|lst.abnormal|%llu\nS|lst.templates|%llu\nS|nontrivial|%llu\n", (unsigned long long)ran, (unsigned long long)ran,
           (unsigned long long)ran, (unsigned long long)abnormal, (unsigned long long)templates_seen, (unsigned long long)ran);
    printf("END|lstmon\n");
    return 0;
}

/* ---- helpers for building datagrams */
static void seq_add(seq_t* s, const uint8_t* d, size_t n)
{
    if (s->n >= MAX_DGRAMS) return;
    if (n > DGRAM_MAX) n = DGRAM_MAX;
    memcpy(s->data[s->n], d, n); s->len[s->n] = (uint16_t)n; s->n++;
}

static void mutate_bytes(vp_rng_t* r, uint8_t* d, size_t n, int flips)
{
    for (int i = 0; i < flips && n; i++) {
        size_t o = (size_t)vp_rng_below(r, n);
        switch (vp_rng_below(r, 4)) {
        case 0: d[o] ^= (uint8_t)(1u << vp_rng_below(r, 8)); break;
        case 1: d[o] = 0xff; break;
        case 2: d[o] = 0; break;
        default: d[o] = (uint8_t)vp_rng_next(r); break;
        }
    }
}

static int make_pair(int fds[2])
{
    if (socketpair(AF_UNIX, SOCK_DGRAM, 0, fds) < 0) return -1;
    int sz = 1 << 20; setsockopt(fds[0], SOL_SOCKET, SO_SNDBUF, &sz, sizeof sz); setsockopt(fds[1], SOL_SOCKET, SO_SNDBUF, &sz, sizeof sz);
    return 0;
}

#ifdef LST_FUZZ
/* libFuzzer stage (thorough tier of C18): first input byte selects the listener mode, the rest is one datagram.
 * State (sequence numbers, queues) persists across inputs, so the fuzzer explores datagram histories. */
static void lst_fuzz_one(int mode, const uint8_t* d, size_t n);
int LLVMFuzzerTestOneInput(const uint8_t* data, size_t size)
{
    static int init;
    if (!init) { init = 1; int dn = open("/dev/null", O_WRONLY); if (dn >= 0) { dup2(dn, 1); close(dn); } signal(SIGPIPE, SIG_IGN); }
    if (size < 1) return 0;
    size_t n = size - 1; if (n > 1500) n = 1500;
    lst_fuzz_one(data[0] % lst_nmodes(), data + 1, n);
    return 0;
}
#endif
