/* lst_can.c - drives the receive path (new_packet) of examples/acf-can/acf-can-listener.c (C18, and listener half of C19) */
#include "lst_common.h"

static ssize_t lst_recv(int fd, void* buf, size_t n, int flags);
static ssize_t lst_write(int fd, const void* buf, size_t n);
#define main listener_main
#define recv lst_recv
#define write lst_write
#include "acf-can/acf-can-listener.c"
#undef main
#undef recv
#undef write

int create_listener_socket_udp(uint32_t p) { (void)p; return -1; }
int create_listener_socket(char* i, uint8_t m[], int p) { (void)i; (void)m; (void)p; return -1; }
int setup_can_socket(const char* c, Avtp_CanVariant_t v) { (void)c; (void)v; return -1; }

static frame_t g_last; static size_t g_last_n; static long g_frames;

static ssize_t lst_recv(int fd, void* buf, size_t n, int flags) { return recv(fd, buf, n, flags); }
static ssize_t lst_write(int fd, const void* buf, size_t n)
{
    (void)fd;
    if (++g_writes_this_dgram > 16384) {           /* a 16-bit length walked in steps of >= 4 bytes cannot emit more */
        const char* m = "VP-LOOP: more than 16384 CAN frames for one datagram\n";
        if (write(2, m, strlen(m))) {}
#ifdef LST_FUZZ
        abort();
#endif
        _exit(EX_LOOP);
    }
    memset(&g_last, 0, sizeof g_last);
    memcpy(&g_last, buf, n > sizeof g_last ? sizeof g_last : n); g_last_n = n; g_frames++;
    return (ssize_t)n;
}

static const char* lst_name(void) { return "acf-can-listener"; }
static int lst_nmodes(void) { return 4; }
static const char* lst_mode_name(int m) { static const char* n[] = { "raw+classic", "raw+fd", "udp+classic", "udp+fd" }; return n[m]; }

/* valid packet: [udp] cf header, k CAN messages */
static size_t build_valid(vp_rng_t* r, int mode, uint8_t* out, int tscf, int k, int maxlen)
{
    size_t o = 0;
    int udp = mode >= 2, fd = mode & 1;
    if (udp) { Avtp_Udp_Init((Avtp_Udp_t*)out); Avtp_Udp_SetEncapsulationSeqNo((Avtp_Udp_t*)out, (uint32_t)vp_rng_next(r)); o += 4; }
    uint8_t* cf = out + o;
    if (tscf) { Avtp_Tscf_Init((Avtp_Tscf_t*)cf); Avtp_Tscf_SetStreamId((Avtp_Tscf_t*)cf, 0xAABBCCDDEEFF0001ull); o += 24; }
    else { Avtp_Ntscf_Init((Avtp_Ntscf_t*)cf); Avtp_Ntscf_SetStreamId((Avtp_Ntscf_t*)cf, 0xAABBCCDDEEFF0001ull); o += 12; }
    size_t acf0 = o;
    for (int i = 0; i < k; i++) {
        uint8_t pl[64]; vp_rng_fill(r, pl, 64);
        int L = (int)vp_rng_below(r, (uint64_t)(fd ? maxlen + 1 : (maxlen < 8 ? maxlen + 1 : 9))); if (!fd && L > 8) L = 8;
        if (o + 16 + (size_t)((L + 3) & ~3) > 1500) break;              /* never more than the receive buffer takes */
        uint32_t id = (vp_rng_next(r) & 1) ? (uint32_t)vp_rng_next(r) & 0x7ff : (uint32_t)vp_rng_next(r) & 0x1fffffff;
        Avtp_Can_t* c = (Avtp_Can_t*)(out + o);
        Avtp_Can_Init(c);
        Avtp_Can_SetMtv(c, 1); Avtp_Can_SetMessageTimestamp(c, vp_rng_next(r));
        Avtp_Can_CreateAcfMessage(c, id, pl, (uint16_t)L, fd ? AVTP_CAN_FD : AVTP_CAN_CLASSIC);
        if (vp_rng_next(r) & 1) Avtp_Can_SetRtr(c, 1);
        if (fd) { Avtp_Can_SetBrs(c, vp_rng_next(r) & 1); Avtp_Can_SetEsi(c, vp_rng_next(r) & 1); }
        o += (size_t)Avtp_Can_GetAcfMsgLength(c) * 4;
    }
    if (tscf) Avtp_Tscf_SetStreamDataLength((Avtp_Tscf_t*)cf, (uint16_t)(o - acf0));
    else Avtp_Ntscf_SetNtscfDataLength((Avtp_Ntscf_t*)cf, (uint16_t)(o - acf0));
    return o;
}

static void lst_make_sequence(vp_rng_t* r, int mode, uint64_t idx, seq_t* s)
{
    int nd = 1 + (int)vp_rng_below(r, 3);
    int udp = mode >= 2;
    size_t cfo = udp ? 4 : 0;
    const char* name = "?";
    if (idx % 41 == 17) {                 /* soak: more than 256 valid packets through one listener instance, every one must come out */
        for (int d = 0; d < MAX_DGRAMS; d++) {
            uint8_t b[DGRAM_MAX]; memset(b, 0, sizeof b);
            int k = 1 + (int)vp_rng_below(r, 3);
            size_t n = build_valid(r, mode, b, (int)(vp_rng_next(r) & 1), k, 64);
            if (udp) Avtp_Udp_SetEncapsulationSeqNo((Avtp_Udp_t*)b, (uint32_t)d);
            seq_add(s, b, n);
            s->expect_p1[d] = (uint8_t)(1 + k);
        }
        s->repeat = 40;
        snprintf(s->tmpl, sizeof s->tmpl, "soak-valid-packets");
        return;
    }
    for (int d = 0; d < nd; d++) {
        uint8_t b[DGRAM_MAX]; memset(b, 0, sizeof b);
        int tscf = (int)(vp_rng_next(r) & 1);
        size_t acfo = cfo + (tscf ? 24 : 12);
        size_t n = build_valid(r, mode, b, tscf, 1 + (int)vp_rng_below(r, 5), 64);
        uint64_t t = (idx + (uint64_t)d * 7) % 26;
        if (t == 24 || t == 25) {            /* well-formed chain that ends 1..15 bytes before the end of a (nearly) full-size datagram, then a fragment of an ACF-CAN header */
            name = "chain-to-end-plus-header-fragment";
            size_t T = 1500 - 4 * (1 + (size_t)vp_rng_below(r, 3)) - (t == 25 ? 4 * (size_t)vp_rng_below(r, (idx & 32) ? 17 : 3) : 0);     /* chain end: 1476..1496 */
            size_t o = acfo;
            memset(b, 0, sizeof b);
            if (udp) { Avtp_Udp_Init((Avtp_Udp_t*)b); }
            if (tscf) Avtp_Tscf_Init((Avtp_Tscf_t*)(b + cfo)); else Avtp_Ntscf_Init((Avtp_Ntscf_t*)(b + cfo));
            while (o < T) {
                size_t left = T - o, sz = 0;                     /* message sizes 16/20/24 (payload 0/4/8) that add up exactly */
                static const size_t cand[3] = { 24, 20, 16 };
                for (int ci = 0; ci < 3 && !sz; ci++) {
                    if (cand[ci] > left) continue;
                    size_t rem = left - cand[ci];
                    if (rem == 0 || rem == 16 || rem == 20 || rem == 24 || rem >= 32) sz = cand[ci];
                }
                if (!sz) break;
                uint8_t pl[8]; vp_rng_fill(r, pl, 8);
                Avtp_Can_t* c = (Avtp_Can_t*)(b + o);
                Avtp_Can_Init(c);
                Avtp_Can_CreateAcfMessage(c, (uint32_t)vp_rng_next(r) & 0x7ff, pl, (uint16_t)(sz - 16), (mode & 1) ? AVTP_CAN_FD : AVTP_CAN_CLASSIC);
                o += sz;
            }
            size_t frag = 1 + (size_t)vp_rng_below(r, 1500 - o < 15 ? 1500 - o : 15);
            vp_rng_fill(r, b + o, frag);
            b[o] = (uint8_t)((AVTP_ACF_TYPE_CAN << 1) | (vp_rng_next(r) & 1));
            if (t == 25 && o + 16 <= 1500 && (idx & 32)) {
                /* or: a last message whose header is complete and well-formed but whose announced length (payload of up to 64
                 * bytes) reaches beyond the end of the datagram - and of the receive buffer */
                name = "chain-to-end-plus-message-longer-than-the-rest";
                frag = 1500 - o;
                uint8_t pl[64]; vp_rng_fill(r, pl, 64);
                uint8_t tmp[96]; Avtp_Can_t* c = (Avtp_Can_t*)tmp; memset(tmp, 0, sizeof tmp);
                Avtp_Can_Init(c);
                uint16_t L = (uint16_t)(((mode & 1) ? 64 : 8) - vp_rng_below(r, 4));
                Avtp_Can_CreateAcfMessage(c, (uint32_t)vp_rng_next(r) & 0x7ff, pl, L, (mode & 1) ? AVTP_CAN_FD : AVTP_CAN_CLASSIC);
                memcpy(b + o, tmp, frag < 96 ? frag : 96);
            }
            n = o + frag;
            { uint16_t L = (uint16_t)(n - acfo); if (tscf) Avtp_Tscf_SetStreamDataLength((Avtp_Tscf_t*)(b + cfo), L); else Avtp_Ntscf_SetNtscfDataLength((Avtp_Ntscf_t*)(b + cfo), L); }
            seq_add(s, b, n);
            continue;
        }
        if (t >= 22) {                       /* a full-size valid packet, then a datagram that ends inside its control-format header */
            name = "long-valid-then-truncated-header";
            if (d == 0) { n = build_valid(r, mode, b, tscf, 40, 8); }
            else { n = cfo + 4 + (size_t)vp_rng_below(r, 24);
                   if (tscf) Avtp_Tscf_SetStreamDataLength((Avtp_Tscf_t*)(b + cfo), 0xffff); else Avtp_Ntscf_SetNtscfDataLength((Avtp_Ntscf_t*)(b + cfo), 0x7ff); }
            seq_add(s, b, n);
            if (nd < 2) nd = 2;
            continue;
        }
        switch (t) {
        case 0: name = "valid"; break;
        case 1: name = "truncate-any"; n = (size_t)vp_rng_below(r, n + 1); break;
        case 2: name = "truncate-0-64"; n = (size_t)vp_rng_below(r, 65); break;
        case 3: name = "empty-datagram"; n = 0; break;
        case 4: name = "random-bytes"; n = (size_t)vp_rng_below(r, 1601); vp_rng_fill(r, b, n);   /* up to 100 bytes more than any receive buffer holds */ break;
        case 5: name = "random-1500-or-oversize"; n = 1500 + ((idx & 8) ? (size_t)vp_rng_below(r, 101) : 0); vp_rng_fill(r, b, n); break;
        case 6: name = "cf-length-lie"; { static const uint16_t v[] = { 0, 1, 3, 4, 15, 16, 17, 2047, 65535, 1500, 1499 };
                  uint16_t x = v[vp_rng_below(r, 11)];
                  if (tscf) Avtp_Tscf_SetStreamDataLength((Avtp_Tscf_t*)(b + cfo), x); else Avtp_Ntscf_SetNtscfDataLength((Avtp_Ntscf_t*)(b + cfo), x); } break;
        case 7: name = "acf-length-zero"; Avtp_Can_SetAcfMsgLength((Avtp_Can_t*)(b + acfo), 0); break;
        case 8: name = "acf-length-small"; Avtp_Can_SetAcfMsgLength((Avtp_Can_t*)(b + acfo), (uint16_t)(1 + vp_rng_below(r, 3))); break;
        case 9: name = "acf-length-max"; Avtp_Can_SetAcfMsgLength((Avtp_Can_t*)(b + acfo), 511); break;
        case 10: name = "acf-length-large"; Avtp_Can_SetAcfMsgLength((Avtp_Can_t*)(b + acfo), (uint16_t)(5 + vp_rng_below(r, 100))); break;
        case 11: name = "pad-lie"; Avtp_Can_SetPad((Avtp_Can_t*)(b + acfo), (uint8_t)vp_rng_below(r, 4)); break;
        case 12: name = "wrong-acf-type"; Avtp_Can_SetAcfMsgType((Avtp_Can_t*)(b + acfo), (uint8_t)vp_rng_below(r, 128)); break;
        case 13: name = "wrong-subtype"; b[cfo] = (uint8_t)vp_rng_next(r); break;
        case 14: name = "extended-id-without-eff"; Avtp_Can_SetCanIdentifier((Avtp_Can_t*)(b + acfo), 0x1ABCDEF0); Avtp_Can_SetEff((Avtp_Can_t*)(b + acfo), 0); break;
        case 15: name = "fd-length-in-classic"; n = build_valid(r, mode | 1, b, tscf, 2, 64); break;
        case 16: name = "long-payload-claim"; n = build_valid(r, 3, b, tscf, 1, 64); Avtp_Can_SetAcfMsgLength((Avtp_Can_t*)(b + acfo), 68); break;
        case 17: name = "bit-flips"; mutate_bytes(r, b, n, 1 + (int)vp_rng_below(r, 6)); break;
        case 18: name = "header-flips"; mutate_bytes(r, b, acfo + 16 < n ? acfo + 16 : n, 1 + (int)vp_rng_below(r, 4)); break;
        case 19: name = "many-messages"; n = build_valid(r, mode, b, tscf, 30, 8);
                 /* or: as many valid messages as one datagram takes - data-less frames (16 bytes each, up to 93) or frames of 0..4 bytes */
                 if (idx & 16) { name = "as-many-short-messages-as-fit"; memset(b, 0, sizeof b); n = build_valid(r, mode, b, tscf, 100, (idx & 64) ? 0 : 4); }
                 break;
        case 20: name = "cf-length-beyond-datagram"; if (tscf) Avtp_Tscf_SetStreamDataLength((Avtp_Tscf_t*)(b + cfo), (uint16_t)(n + 40)); else Avtp_Ntscf_SetNtscfDataLength((Avtp_Ntscf_t*)(b + cfo), (uint16_t)((n + 40) & 0x7ff)); break;
        default: name = "acf-length-beyond-cf"; Avtp_Can_SetAcfMsgLength((Avtp_Can_t*)(b + acfo), (uint16_t)(30 + vp_rng_below(r, 400))); break;
        }
        seq_add(s, b, n);
    }
    snprintf(s->tmpl, sizeof s->tmpl, "%s", name);
}

static int lst_child(int mode, const seq_t* s)
{
    int pair[2];
    (void)s;
    if (make_pair(pair) < 0) return EX_HARNESS;
    g_feed_fd = pair[0];
    use_udp = mode >= 2;
    can_variant = (mode & 1) ? AVTP_CAN_FD : AVTP_CAN_CLASSIC;
    /* sentinel: a valid one-message packet that must still come out right after the hostile sequence */
    vp_rng_t r; vp_rng_seed(&r, 4242, 1);
    uint8_t pl[8] = { 0xde, 0xad, 0xbe, 0xef, 1, 2, 3, 4 };
    size_t o = 0;
    if (use_udp) { Avtp_Udp_Init((Avtp_Udp_t*)g_sentinel); o = 4; }
    Avtp_Ntscf_Init((Avtp_Ntscf_t*)(g_sentinel + o));
    Avtp_Can_t* c = (Avtp_Can_t*)(g_sentinel + o + 12);
    Avtp_Can_Init(c);
    Avtp_Can_CreateAcfMessage(c, 0x123, pl, 8, can_variant);
    Avtp_Ntscf_SetNtscfDataLength((Avtp_Ntscf_t*)(g_sentinel + o), 24);
    g_sentinel_len = (int)(o + 12 + 24);
    while (feed_next()) {
        long before = g_frames;
        new_packet(pair[1], 99);
        budget_stop();
        /* every forwarded CAN frame comes from an ACF message of at least 16 bytes inside THIS datagram */
        if (!g_in_sentinel) {
            long dlen = g_seq->len[g_next - 1], hdrs = (use_udp ? 4 : 0) + 12;
            long room = dlen > hdrs ? (dlen - hdrs) / 16 : 0;
            if (g_frames - before > room) {
                fprintf(stderr, "VP-REPLAY: %ld CAN frames forwarded for a %ld-byte datagram that can hold at most %ld ACF-CAN messages (stale buffer contents parsed)\n", g_frames - before, dlen, room);
                return 81;
            }
        }
        if (!g_in_sentinel && g_seq->expect_p1[g_next - 1] && g_frames - before != (long)g_seq->expect_p1[g_next - 1] - 1) {
            fprintf(stderr, "VP-LOST: valid packet number %ld of the stream produced %ld CAN frame(s) instead of %d\n", g_fed, g_frames - before, g_seq->expect_p1[g_next - 1] - 1);
            return EX_LOST;
        }
        if (g_in_sentinel) {
            canid_t id = (mode & 1) ? g_last.fd.can_id : g_last.cc.can_id;
            uint8_t len = (mode & 1) ? g_last.fd.len : g_last.cc.len;
            const uint8_t* data = (mode & 1) ? g_last.fd.data : g_last.cc.data;
            if (g_frames != before + 1 || id != 0x123 || len != 8 || memcmp(data, pl, 8) != 0) {
                fprintf(stderr, "VP-SENTINEL: after the hostile sequence a valid packet produced %ld frame(s), id=0x%x len=%u\n", g_frames - before, id, len);
                return EX_SENTINEL;
            }
        }
    }
    return EX_OK;
}

#ifndef LST_FUZZ
int main(void) { return lst_driver_main(); }
#else
static void lst_fuzz_one(int mode, const uint8_t* d, size_t n)
{
    static int pair[2] = { -1, -1 };
    if (pair[0] < 0 && make_pair(pair) < 0) abort();
    use_udp = mode >= 2; can_variant = (mode & 1) ? AVTP_CAN_FD : AVTP_CAN_CLASSIC;
    if (send(pair[0], d, n, 0) < 0) abort();
    g_writes_this_dgram = 0;
    new_packet(pair[1], 99);
}
#endif
