/* tun_talker.c - the real examples/acf-can/acf-can-talker.c main(), with its sockets replaced by
 * socket-pair ends supplied by the tunnel monitor (C19). */
#define _GNU_SOURCE
#include <sys/types.h>
#include <sys/socket.h>
#include <unistd.h>
#include <string.h>
static ssize_t tun_sendto(int fd, const void* buf, size_t n, int flags, const struct sockaddr* a, socklen_t al);
#define main talker_main
#define sendto tun_sendto
#include "acf-can/acf-can-talker.c"
#undef main
#undef sendto

int tun_can_fd = -1, tun_net_fd = -1;

static ssize_t tun_sendto(int fd, const void* buf, size_t n, int flags, const struct sockaddr* a, socklen_t al)
{
    (void)a; (void)al; (void)flags;
    return send(fd, buf, n, 0);
}
int create_talker_socket_udp(int priority) { (void)priority; return tun_net_fd; }
int create_talker_socket(int priority) { (void)priority; return tun_net_fd; }
int setup_udp_socket_address(struct in_addr* addr, uint32_t port, struct sockaddr_in* sk) { (void)addr; (void)port; memset(sk, 0, sizeof *sk); return 0; }
int setup_socket_address(int fd, const char* ifn, uint8_t mac[], int proto, struct sockaddr_ll* sk) { (void)fd; (void)ifn; (void)mac; (void)proto; memset(sk, 0, sizeof *sk); return 0; }
int setup_can_socket(const char* can_ifname, Avtp_CanVariant_t v) { (void)can_ifname; (void)v; return tun_can_fd; }
int talker_entry(int argc, char** argv) { return talker_main(argc, argv); }
