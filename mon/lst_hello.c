/* lst_hello.c - drives the main loop of examples/hello-world/hello-world-listener.c (C18) */
#define LST_LEARN_REFERENCE 1
#include "lst_common.h"
static ssize_t lst_recv(int fd, void* buf, size_t n, int flags);
#define main listener_main
#define recv lst_recv
#include "hello-world/hello-world-listener.c"
#undef main
#undef recv
#include "lst_mainloop.h"

static const char* lst_name(void) { return "hello-world-listener"; }
static int lst_nmodes(void) { return 2; }
static const char* lst_mode_name(int m) { return m ? "udp" : "raw"; }

static size_t build_valid(vp_rng_t* r, int udp, int tscf, uint8_t* b, const char* msg, size_t mlen, int terminate)
{
    size_t o = 0;
    if (udp) { Avtp_Udp_Init((Avtp_Udp_t*)b); Avtp_Udp_SetEncapsulationSeqNo((Avtp_Udp_t*)b, (uint32_t)vp_rng_next(r)); o = 4; }
    uint8_t* cf = b + o;
    if (tscf) { Avtp_Tscf_Init((Avtp_Tscf_t*)cf); o += 24; } else { Avtp_Ntscf_Init((Avtp_Ntscf_t*)cf); o += 12; }
    Avtp_Gpc_t* g = (Avtp_Gpc_t*)(b + o);
    Avtp_Gpc_Init(g); Avtp_Gpc_SetGpcMsgId(g, 0x1234);
    memcpy(b + o + 8, msg, mlen);
    size_t tot = 8 + mlen + (terminate ? 1 : 0);
    if (terminate) b[o + 8 + mlen] = 0;
    size_t padded = (tot + 3) / 4 * 4;
    Avtp_Gpc_SetAcfMsgLength(g, (uint16_t)(padded / 4));
    if (tscf) Avtp_Tscf_SetStreamDataLength((Avtp_Tscf_t*)cf, (uint16_t)padded); else Avtp_Ntscf_SetNtscfDataLength((Avtp_Ntscf_t*)cf, (uint16_t)padded);
    return o + padded;
}

static void lst_make_sequence(vp_rng_t* r, int mode, uint64_t idx, seq_t* s)
{
    int nd = 1 + (int)vp_rng_below(r, 3);
    const char* name = "?";
    if (idx % 41 == 17) {                 /* soak: a long stream of valid messages through one listener instance */
        int longm = (int)((idx / 41) & 1);
        for (int d = 0; d < MAX_DGRAMS; d++) {
            uint8_t b[DGRAM_MAX]; memset(b, 0, sizeof b);
            char msg[1500]; for (int i = 0; i < 1500; i++) msg[i] = (char)('A' + vp_rng_below(r, 26));
            seq_add(s, b, build_valid(r, mode, (int)(vp_rng_next(r) & 1), b, msg, longm ? 1300 + (size_t)vp_rng_below(r, 100) : 1 + (size_t)vp_rng_below(r, 40), 1));
        }
        s->repeat = longm ? 40 : 260;
        snprintf(s->tmpl, sizeof s->tmpl, "%s", longm ? "soak-valid-long-messages" : "soak-valid-short-messages");
        return;
    }
    for (int d = 0; d < nd; d++) {
        uint8_t b[DGRAM_MAX]; memset(b, 0, sizeof b);
        char msg[1500]; for (int i = 0; i < 1500; i++) msg[i] = (char)('A' + vp_rng_below(r, 26));
        int tscf = (int)(vp_rng_next(r) & 1);
        size_t hdr = (mode ? 4 : 0) + (tscf ? 24 : 12) + 8;
        size_t n = build_valid(r, mode, tscf, b, msg, 1 + (size_t)vp_rng_below(r, 60), 1);
        Avtp_Gpc_t* g = (Avtp_Gpc_t*)(b + hdr - 8);
        switch ((idx + (uint64_t)d * 5) % 12) {
        case 0: name = "valid"; break;
        case 1: name = "unterminated-short"; n = build_valid(r, mode, tscf, b, msg, 4 * (1 + (size_t)vp_rng_below(r, 20)), 0); break;
        case 2: name = "unterminated-fills-1500"; n = build_valid(r, mode, tscf, b, msg, 1500 - hdr, 0); Avtp_Gpc_SetAcfMsgLength(g, (uint16_t)vp_rng_below(r, 26)); break;
        case 3: name = "truncate-any"; n = (size_t)vp_rng_below(r, n + 1); break;
        case 4: name = "truncate-0-64"; n = (size_t)vp_rng_below(r, 65); break;
        case 5: name = "empty-datagram"; n = 0; break;
        case 6: name = "random-bytes"; n = (size_t)vp_rng_below(r, 1601); vp_rng_fill(r, b, n);   /* up to 100 bytes more than any receive buffer holds */ break;
        case 7: name = "acf-length-lie"; Avtp_Gpc_SetAcfMsgLength(g, (uint16_t)vp_rng_below(r, 512)); break;
        case 8: name = "headers-only-gpc-type"; n = hdr; Avtp_Gpc_SetAcfMsgLength(g, 2); break;
        case 9: name = "bit-flips"; mutate_bytes(r, b, n, 1 + (int)vp_rng_below(r, 5)); break;
        case 10: name = "nonprintable-unterminated"; n = build_valid(r, mode, tscf, b, msg, 40, 0); for (int i = 0; i < 40; i++) b[hdr + (size_t)i] = (uint8_t)(0x80 + vp_rng_below(r, 100)); break;
        default: name = "short-then-type-match"; n = hdr - 4; break;
        }
        seq_add(s, b, n);
    }
    snprintf(s->tmpl, sizeof s->tmpl, "%s", name);
}

static int lst_child(int mode, const seq_t* s)
{
    (void)s;
    if (mainloop_setup() < 0) return EX_HARNESS;
    vp_rng_t r; vp_rng_seed(&r, 99, 1);
    g_sentinel_len = (int)build_valid(&r, mode, 0, g_sentinel, "SENTINEL-MSG", 12, 1);
    g_expect = "SENTINEL-MSG : GPC Code 4660\n"; g_expect_token = "SENTINEL-MSG"; g_cur_mode = mode; g_cur_variant = 0;
    char* argv_u[] = { "hello-world-listener", "-u", 0 };
    char* argv_r[] = { "hello-world-listener", 0 };
    listener_main(mode ? 2 : 1, mode ? argv_u : argv_r);
    /* the receive loop of main() ended: the listener gave up on a datagram instead of going on to the next one */
    fprintf(stderr, "VP-TERMINATED: the listener's main() returned after datagram %d\n", g_cur_dgram);
    return EX_TERMINATED;
}
#ifndef LST_FUZZ
int main(void) { return lst_driver_main(); }
#else
static int fuzz_pair[2] = { -1, -1 };
static void lst_fuzz_one(int mode, const uint8_t* d, size_t n)
{
    if (fuzz_pair[0] < 0) { if (make_pair(fuzz_pair) < 0) abort(); g_feed_fd = fuzz_pair[0]; g_listen_fd = fuzz_pair[1]; }
    fuzz_d = d; fuzz_n = n; fuzz_phase = 0;
    if (setjmp(fuzz_jb) == 0) {
        char* argv_u[] = { "hello-world-listener", "-u", 0 };
        char* argv_r[] = { "hello-world-listener",  0 };
        use_udp = 0;
        listener_main(mode ? 2 : 1, mode ? argv_u : argv_r);
    }
}
#endif
