/*
 * platform_ilp32.c - freestanding platform layer for running the monitors as a 32-bit (ILP32) i386 process.
 * The sandbox has no 32-bit libc development files or libgcc, so this file supplies _start, raw Linux system calls,
 * the byte-wise libc functions the monitored world uses and the 64-bit division helpers.  Faults are not caught
 * (vp_try just calls); the orchestrator treats a death by signal as a violation.
 */
#include <stdint.h>
#include <stddef.h>

static long sys3(long n, long a, long b, long c)
{
    long r;
    __asm__ volatile("int $0x80" : "=a"(r) : "a"(n), "b"(a), "c"(b), "d"(c) : "memory");
    return r;
}
static long sys6(long n, long a, long b, long c, long d, long e, long f)
{
    long r;
    __asm__ volatile("push %%ebp; mov %7, %%ebp; int $0x80; pop %%ebp" : "=a"(r) : "a"(n), "b"(a), "c"(b), "d"(c), "S"(d), "D"(e), "g"(f) : "memory");
    return r;
}

void* memcpy(void* d, const void* s, size_t n) { unsigned char* a = d; const unsigned char* b = s; while (n--) *a++ = *b++; return d; }
void* memmove(void* d, const void* s, size_t n) { unsigned char* a = d; const unsigned char* b = s; if (a < b) while (n--) *a++ = *b++; else while (n--) a[n] = b[n]; return d; }
void* memset(void* d, int c, size_t n) { unsigned char* a = d; while (n--) *a++ = (unsigned char)c; return d; }
int memcmp(const void* x, const void* y, size_t n) { const unsigned char* a = x; const unsigned char* b = y; for (; n--; a++, b++) if (*a != *b) return *a - *b; return 0; }
size_t strlen(const char* s) { size_t n = 0; while (s[n]) n++; return n; }
int strcmp(const char* a, const char* b) { while (*a && *a == *b) { a++; b++; } return (unsigned char)*a - (unsigned char)*b; }
int strncmp(const char* a, const char* b, size_t n) { while (n && *a && *a == *b) { a++; b++; n--; } return n ? (unsigned char)*a - (unsigned char)*b : 0; }
char* strncpy(char* d, const char* s, size_t n) { size_t i = 0; for (; i < n && s[i]; i++) d[i] = s[i]; for (; i < n; i++) d[i] = 0; return d; }

/* 64-bit division (libgcc is not available for -m32 here) */
static uint64_t udivmod(uint64_t n, uint64_t d, uint64_t* rem)
{
    uint64_t q = 0, r = 0;
    for (int i = 63; i >= 0; i--) { r = (r << 1) | ((n >> i) & 1); if (r >= d) { r -= d; q |= (uint64_t)1 << i; } }
    if (rem) *rem = r;
    return q;
}
uint64_t __udivdi3(uint64_t n, uint64_t d) { return udivmod(n, d, 0); }
uint64_t __umoddi3(uint64_t n, uint64_t d) { uint64_t r; udivmod(n, d, &r); return r; }
uint64_t __udivmoddi4(uint64_t n, uint64_t d, uint64_t* rem) { return udivmod(n, d, rem); }
int64_t __divdi3(int64_t n, int64_t d) { int neg = (n < 0) != (d < 0); uint64_t q = udivmod(n < 0 ? -(uint64_t)n : (uint64_t)n, d < 0 ? -(uint64_t)d : (uint64_t)d, 0); return neg ? -(int64_t)q : (int64_t)q; }
int64_t __moddi3(int64_t n, int64_t d) { uint64_t r; udivmod(n < 0 ? -(uint64_t)n : (uint64_t)n, d < 0 ? -(uint64_t)d : (uint64_t)d, &r); return n < 0 ? -(int64_t)r : (int64_t)r; }

static char** g_envp;

void vp_write(const char* buf, size_t n) { size_t o = 0; while (o < n) { long k = sys3(4, 1, (long)(buf + o), (long)(n - o)); if (k <= 0) sys3(1, 3, 0, 0); o += (size_t)k; } }

static const char* env_get(const char* name)
{
    size_t n = strlen(name);
    for (char** e = g_envp; e && *e; e++) if (strncmp(*e, "VP_", 3) == 0 && strncmp(*e + 3, name, n) == 0 && (*e)[3 + n] == '=') return *e + 4 + n;
    return 0;
}
uint64_t vp_cfg_u64(const char* name, uint64_t dflt)
{
    const char* v = env_get(name);
    if (!v || !*v) return dflt;
    uint64_t x = 0; int hex = v[0] == '0' && (v[1] == 'x' || v[1] == 'X');
    for (v += hex ? 2 : 0; *v; v++) {
        int dgt = (*v >= '0' && *v <= '9') ? *v - '0' : (hex && *v >= 'a' && *v <= 'f') ? *v - 'a' + 10 : (hex && *v >= 'A' && *v <= 'F') ? *v - 'A' + 10 : -1;
        if (dgt < 0) break;
        x = x * (hex ? 16 : 10) + (uint64_t)dgt;
    }
    return x;
}
const char* vp_cfg_str(const char* name, const char* dflt) { const char* v = env_get(name); return (v && *v) ? v : dflt; }

uint8_t* vp_map(size_t n)
{
    n = (n + 4095) & ~(size_t)4095; if (!n) n = 4096;
    long p = sys6(192, 0, (long)n, 3 /* RW */, 0x22 /* PRIVATE|ANONYMOUS */, -1, 0);
    if (p < 0 && p > -4096) sys3(1, 3, 0, 0);
    return (uint8_t*)p;
}
void vp_unmap(uint8_t* p, size_t n) { if (p) sys3(91, (long)p, (long)((n + 4095) & ~(size_t)4095), 0); }
uint8_t* vp_map_at(uint64_t addr, size_t n) { (void)addr; (void)n; return 0; }      /* no 4 GiB boundary inside a 32-bit address space */
void vp_readonly(uint8_t* page, size_t n, int on) { sys3(125, (long)page, (long)((n + 4095) & ~(size_t)4095), on ? 1 : 3); }   /* mprotect: a store then kills the process (reported as a signal) */
uint8_t* vp_guard_end(size_t n) { return vp_map(n + 4096); }
uint8_t* vp_guard_begin(size_t n) { return vp_map(n + 4096); }
void vp_guard_free(uint8_t* p, size_t n) { (void)p; (void)n; }
uint8_t* vp_heap(size_t n) { static uint8_t* cur; static size_t left; n = (n + 15) & ~(size_t)15; if (!n) n = 16; if (left < n) { size_t c = n > (1u << 20) ? n : (1u << 20); cur = vp_map(c); left = c; } uint8_t* p = cur; cur += n; left -= n; return p; }
void vp_heap_free(uint8_t* p) { (void)p; }
int vp_try(void (*fn)(void*), void* arg) { fn(arg); return 0; }
int errno;
void abort(void) { sys3(1, 134, 0, 0); for (;;) { } }
void vp_watchdog_start(void) { }      /* the orchestrator limits the CPU time of this build's processes instead */
void vp_curop(const char* a, const char* b, const char* c, uint64_t n) { (void)a; (void)b; (void)c; (void)n; }
void vp_yield(uint64_t r) { (void)r; }

int main(void);
void vp_c_start(long* sp)
{
    long argc = sp[0];
    g_envp = (char**)(sp + 1 + argc + 1);
    int rc = main();
    sys3(1, rc, 0, 0);
    for (;;) {}
}
__asm__(".globl _start\n_start:\n  xor %ebp, %ebp\n  mov %esp, %eax\n  and $-16, %esp\n  sub $12, %esp\n  push %eax\n  call vp_c_start\n  hlt\n");
