/* lst_crf.c - drives aaf_listener_recv_pdu() / aaf_talker_recv_pdu() of examples/crf/crf-listener.c (C18) */
#include "lst_common.h"
static ssize_t lst_recv(int fd, void* buf, size_t n, int flags);
#define main listener_main
#define recv lst_recv
#include "crf/crf-listener.c"
#undef main
#undef recv
static ssize_t lst_recv(int fd, void* buf, size_t n, int flags) { return recv(fd, buf, n, flags); }

static const char* lst_name(void) { return "crf-listener"; }
static int lst_nmodes(void) { return 2; }
static const char* lst_mode_name(int m) { return m ? "talker-mode" : "listener-mode"; }

static size_t build_crf(vp_rng_t* r, uint8_t* b, uint8_t seq, uint64_t ts0)
{
    Avtp_Crf_t* c = (Avtp_Crf_t*)b;
    Avtp_Crf_Init(c);
    Avtp_Crf_SetSequenceNum(c, seq); Avtp_Crf_SetType(c, AVTP_CRF_TYPE_AUDIO_SAMPLE); Avtp_Crf_SetStreamId(c, CRF_STREAM_ID);
    Avtp_Crf_SetBaseFrequency(c, CRF_SAMPLE_RATE); Avtp_Crf_SetPull(c, AVTP_CRF_PULL_MULT_BY_1);
    Avtp_Crf_SetCrfDataLength(c, CRF_DATA_LEN); Avtp_Crf_SetTimestampInterval(c, MCLKLIST_TS_PER_CRF);
    for (int i = 0; i < TIMESTAMPS_PER_PKT; i++) { uint64_t t = ts0 + (uint64_t)i * 3333333; for (int k = 0; k < 8; k++) b[20 + i * 8 + k] = (uint8_t)(t >> (8 * (7 - k))); }
    (void)r;
    return CRF_PDU_SIZE;
}

static size_t build_aaf(vp_rng_t* r, uint8_t* b, uint8_t seq, uint32_t ts)
{
    Avtp_Pcm_t* p = (Avtp_Pcm_t*)b;
    Avtp_Pcm_Init(p);
    Avtp_Pcm_SetTv(p, 1); Avtp_Pcm_SetStreamId(p, AAF_STREAM_ID); Avtp_Pcm_SetSequenceNum(p, seq);
    Avtp_Pcm_SetFormat(p, AVTP_AAF_FORMAT_INT_16BIT); Avtp_Pcm_SetNsr(p, AVTP_AAF_PCM_NSR_48KHZ);
    Avtp_Pcm_SetChannelsPerFrame(p, AAF_NUM_CHANNELS); Avtp_Pcm_SetBitDepth(p, 16); Avtp_Pcm_SetStreamDataLength(p, AAF_DATA_LEN);
    Avtp_Pcm_SetAvtpTimestamp(p, ts);
    vp_rng_fill(r, b + 24, AAF_DATA_LEN);
    return AAF_PDU_SIZE;
}

static void lst_make_sequence(vp_rng_t* r, int mode, uint64_t idx, seq_t* s)
{
    int nd = 1 + (int)vp_rng_below(r, 5);
    const char* name = "?";
    uint64_t base = 1000000000000ull + vp_rng_below(r, 1000000) * 125000ull;
    if (idx % 41 == 17) {                 /* soak: a long run of valid CRF packets (queue bookkeeping over > 100 packets), then an AAF packet that drains, then CRF again */
        uint8_t b[DGRAM_MAX];
        for (int d = 0; d < 6; d++) { memset(b, 0, sizeof b); seq_add(s, b, build_crf(r, b, (uint8_t)d, base + (uint64_t)d * 20000000)); }
        memset(b, 0, sizeof b); seq_add(s, b, build_aaf(r, b, 7, (uint32_t)vp_rng_next(r) | 1u));
        memset(b, 0, sizeof b); seq_add(s, b, build_crf(r, b, 8, base + 900000000ull));
        s->repeat = 20 + (int)((idx / 41) % 3) * 10; s->rep_n = 6;
        snprintf(s->tmpl, sizeof s->tmpl, "soak-valid-crf-then-aaf-then-crf");
        (void)mode;
        return;
    }
    for (int d = 0; d < nd; d++) {
        uint8_t b[DGRAM_MAX]; memset(b, 0, sizeof b);
        size_t n;
        switch ((idx + (uint64_t)d * 3) % 14) {
        case 0: name = "valid-crf"; n = build_crf(r, b, (uint8_t)d, base + (uint64_t)d * 20000000); break;
        case 1: name = "aaf-aligned-timestamp"; n = build_aaf(r, b, (uint8_t)d, (uint32_t)((base + 125000ull * vp_rng_below(r, 50)) & 0xffffffffu)); break;
        case 2: name = "aaf-unmatched-timestamp"; n = build_aaf(r, b, (uint8_t)d, (uint32_t)vp_rng_next(r) | 1u); break;
        case 3: name = "aaf-random-timestamp"; n = build_aaf(r, b, (uint8_t)d, (uint32_t)vp_rng_next(r)); break;
        case 4: name = "crf-invalid-fields"; n = build_crf(r, b, (uint8_t)d, base); mutate_bytes(r, b, 20, 1 + (int)vp_rng_below(r, 3)); break;
        case 5: name = "crf-size-other-subtype"; n = CRF_PDU_SIZE; vp_rng_fill(r, b, n); break;
        case 6: name = "aaf-size-other-subtype"; n = AAF_PDU_SIZE; vp_rng_fill(r, b, n); break;
        case 7: name = "crf-old-timestamps"; n = build_crf(r, b, (uint8_t)d, vp_rng_below(r, 1000)); break;
        case 8: name = "wrong-size"; n = (size_t)vp_rng_below(r, 200); vp_rng_fill(r, b, n); break;
        case 9: name = "empty-datagram"; n = 0; break;
        case 10: name = "crf-huge-timestamps"; n = build_crf(r, b, (uint8_t)d, ~(uint64_t)0 - vp_rng_below(r, 1000000)); break;
        case 11: name = "aaf-bit-flips"; n = build_aaf(r, b, (uint8_t)d, (uint32_t)(base & 0xffffffffu)); mutate_bytes(r, b, n, 1 + (int)vp_rng_below(r, 3)); break;
        case 12: name = "crf-subtype-aaf-size-mismatch"; n = build_aaf(r, b, 0, 5); b[0] = 0x04; break;
        default: name = "crf-then-aaf"; n = build_crf(r, b, (uint8_t)d, base); break;
        }
        if ((idx % 14) == 13 && nd >= 3) {      /* a hole in the media clock (one CRF packet lost), then an AAF timestamp on the clock grid behind the hole */
            name = "crf-hole-then-aaf-on-grid";
            uint64_t P = 125000ull, holes = 200 + vp_rng_below(r, 400);
            if (d == 0) n = build_crf(r, b, 0, base);
            else if (d == 1) n = build_crf(r, b, 2, base + holes * P);
            else n = build_aaf(r, b, (uint8_t)d, (uint32_t)((base + (holes + vp_rng_below(r, 300)) * P - (d == 3 ? P * vp_rng_below(r, 100) : 0)) & 0xffffffffu));
        }
        seq_add(s, b, n);
    }
    (void)mode;
    snprintf(s->tmpl, sizeof s->tmpl, "%s", name);
}

static int lst_child(int m, const seq_t* s)
{
    int pair[2]; (void)s;
    if (make_pair(pair) < 0) return EX_HARNESS;
    g_feed_fd = pair[0];
    mode = m ? MODE_TALKER : MODE_LISTENER;
    STAILQ_INIT(&mclk_timestamps);
    rounded_mtt = 0;
    int tfd = timerfd_create(CLOCK_REALTIME, 0);
    vp_rng_t r; vp_rng_seed(&r, 99, 1);
    g_sentinel_len = (int)build_crf(&r, g_sentinel, 77, 0x7000000000000000ull);
    while (feed_next()) {
        int res = m ? aaf_talker_recv_pdu(pair[1], tfd) : aaf_listener_recv_pdu(pair[1]);
        budget_stop();
        if (g_in_sentinel) {
            struct media_clock_entry* e; struct media_clock_entry* last = 0;
            STAILQ_FOREACH(e, &mclk_timestamps, mclk_entries) last = e;
            if (res < 0 || !last || last->timestamp < 0x7000000000000000ull) {
                fprintf(stderr, "VP-SENTINEL: valid CRF packet after the hostile sequence was not processed (res=%d)\n", res);
                return EX_SENTINEL;
            }
        }
    }
    return EX_OK;
}
#ifndef LST_FUZZ
int main(void) { return lst_driver_main(); }
#else
static void lst_fuzz_one(int m, const uint8_t* d, size_t n)
{
    static int pair[2] = { -1, -1 }; static int tfd = -1; static long queued;
    if (pair[0] < 0) { if (make_pair(pair) < 0) abort(); STAILQ_INIT(&mclk_timestamps); tfd = timerfd_create(CLOCK_REALTIME, 0); }
    mode = m ? MODE_TALKER : MODE_LISTENER;
    if (send(pair[0], d, n, 0) < 0) abort();
    if (m) aaf_talker_recv_pdu(pair[1], tfd); else aaf_listener_recv_pdu(pair[1]);
    if (++queued % 64 == 0) while (!STAILQ_EMPTY(&mclk_timestamps)) { struct media_clock_entry* e = STAILQ_FIRST(&mclk_timestamps); STAILQ_REMOVE_HEAD(&mclk_timestamps, mclk_entries); free(e); }
}
#endif
