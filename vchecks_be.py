"""C14: wire bytes do not depend on host endianness (big-endian host emulated by IR rewriting, tools/beify.py)."""
import os, sys, time, collections
import vlib
from vlib import VERIF
import vchecks_field as F
import vchecks_vss as V

BEIFY = os.path.join(VERIF, 'tools', 'beify.py')

EXPECT_PROBE = {
    'frontend': 'big', 'u16': '1122', 'u32': '11223344', 'u64': '1122334455667788', 'f32': '3f800000', 'f64': 'c000000000000000',
    'struct': '7f000102030405060708090a0b0c0d0e3f80000000000000c000000000000000',
    'tab32': '01020304a1b2c3d4', 'tab16': '0102ffee', 'tab64': '0102030405060708', 'memcpy-load': '0x1020304', 'value-arith': '0x1020305',
}


def be_build(work, name, sources):
    """Compile sources for the emulated big-endian world, link with the native platform layer."""
    d = work.path('beobj_' + name)
    os.makedirs(d, exist_ok=True)
    inc = ['-I' + os.path.join(vlib.REPO, 'include'), '-I' + os.path.join(VERIF, 'mon'), '-I' + os.path.join(VERIF, 'model'), '-D' + vlib.GUARD]
    native = [s for s in sources if os.path.basename(s) == 'platform_native.c']
    emu = [s for s in sources if s not in native]
    jobs = [(s, os.path.join(d, '%03d_%s.o' % (i, os.path.basename(s)[:-2]))) for i, s in enumerate(emu)]

    def one(j):
        s, o = j
        rc, so, se = vlib.run([sys.executable, BEIFY, 'cc', o, s] + inc, timeout=600)
        return rc, se, s
    for rc, se, s in vlib.run_parallel(one, jobs):
        if rc != 0:
            raise vlib.HarnessError('big-endian pipeline failed for %s: %s' % (s, se[-2000:]))
    objs = [o for _, o in jobs]
    for s in native:
        o = os.path.join(d, 'native_platform.o')
        rc, so, se = vlib.run(['gcc', '-std=gnu99', '-w', '-O1', '-c', s, '-o', o])
        if rc != 0:
            raise vlib.HarnessError('platform build failed: ' + se[-2000:])
        objs.append(o)
    binp = work.path(name)
    rc, so, se = vlib.run(['clang'] + objs + ['-o', binp])
    if rc != 0:
        raise vlib.HarnessError('link failed (%s): %s' % (name, se[-2000:]))
    return binp


def canary(work, obs):
    b = be_build(work, 'be_probe', [os.path.join(VERIF, 'mon', 'be_probe.c')] + vlib.core_sources())
    rc, so, se = vlib.run([b], timeout=300)
    got = {}
    for line in so.splitlines():
        if line.startswith('P|'):
            _, k, v = line.split('|', 2)
            got[k] = v
    if rc != 0 or got != EXPECT_PROBE:
        bad = {k: (got.get(k), v) for k, v in EXPECT_PROBE.items() if got.get(k) != v}
        raise vlib.HarnessError('big-endian emulator canary failed (emulator unfaithful, no verdict): %s' % bad)
    vlib.parse_output(obs, so, 'be_probe')
    obs.procs += 1
    obs.ended += 1
    return got


def c14(tier, seed):
    t0 = time.time()
    work = vlib.Work('C14')
    try:
        obs = vlib.Obs()
        probe = canary(work, obs)
        scale = 1 if tier == 'quick' else 60
        srcs = dict(fieldmon=F.fieldmon_sources(work), vssmon=V.vss_sources(), canmon=V.can_sources())
        be = {k: be_build(work, k + '_be', v) for k, v in srcs.items()}
        le = {k: vlib.compile_many(work, k + '_le', v, ['-O0', '-g']) for k, v in srcs.items()}
        jobs = []
        for mode in ('read', 'write', 'init', 'legacy', 'raw', 'views', 'history', 'badargs', 'direct'):
            jobs.append(('fieldmon', dict(VP_MODE=mode, VP_FORMATS='all', VP_REPS=40 * scale, VP_EPISODES=60 * scale, VP_SAMPLES=1)))
        for pl in (2, 1, 4):      # host byte order x alignment: the same corpora at other PDU byte offsets
            for mode in ('read', 'write', 'history', 'direct'):
                jobs.append(('fieldmon', dict(VP_MODE=mode, VP_FORMATS='all', VP_REPS=10 * scale, VP_EPISODES=20 * scale, VP_SAMPLES=0, VP_PLACE=pl)))
        for pl in (0, 3, 2):
            jobs.append(('canmon', dict(VP_REPS=2 * scale, VP_PLACE=pl)))
        for mode, cases in (('encode', 6000 * scale), ('decode', 3000 * scale), ('pad', 2), ('strarr', 400 * scale)):
            for part in range(4):
                jobs.append(('vssmon', dict(VP_MODE=mode, VP_CASES=max(1, cases // 4) if mode != 'pad' else cases, VP_FIRST=part * (cases // 4), VP_CANARY=1, VP_PLACE=(0, 2, 1, 7)[part],
                                            VP_SEED=int(seed) + (part if mode == 'pad' else 0))))
        hashes = collections.defaultdict(dict)

        def one(j):
            eng, env = j
            env = dict(env)
            env.setdefault('VP_SEED', seed)
            res = []
            for world, bins in (('big-endian', be), ('little-endian', le)):
                o = vlib.Obs()
                vlib.run_monitor(o, bins[eng], env, tag=world, sanitizer_env=False, timeout=2400)
                res.append((world, o))
            return j, res
        for (eng, env), res in vlib.run_parallel(one, jobs):
            jid = '%s/%s/%s/%s' % (eng, env.get('VP_MODE', 'build'), env.get('VP_FIRST', 0), env.get('VP_PLACE', 0))
            for world, o in res:
                obs.procs += o.procs
                obs.ended += o.ended
                obs.inconclusive += o.inconclusive
                if world == 'big-endian':
                    for k, v in o.stats.items():
                        obs.stat(k, v)
                    obs.samples += o.samples[:2]
                for key, v in o.viol.items():
                    obs.add_viol('%s[%s-host]' % (key, world), v['details'][0] if v['details'] else None, count=v['count'], source=v.get('source'))
                for (t, chunk), hv in o.hashes.items():
                    hashes[(jid, chunk)][world] = hv
        ncmp = 0
        for (jid, chunk), m in sorted(hashes.items()):
            ncmp += 1
            if len(m) != 2 or m.get('big-endian') != m.get('little-endian'):
                obs.add_viol('transcript-differs-between-host-byte-orders:%s:%s' % (jid, chunk), dict(hashes={k: v[0] for k, v in m.items()}))
        obs.stat('evals', ncmp)
        cov = dict(distinct_nontrivial=ncmp, transcript_chunks_compared=ncmp, emulator_canary=probe,
                   rule='library + monitors compiled for a big-endian LP64 host (clang --target=powerpc64, Byteorder.h takes its '
                        'big-endian branch) and executed under a big-endian memory model (every 16/32/64-bit/float/double load and store '
                        'byte-swapped by IR rewriting, verified by a canary probe on every run).  The corpora of C01,C02,C04,C05,C06,C07,'
                        'C08,C09,C10,C11,C12,C17 run in that world with their byte-wise model oracles active, and every transcript chunk '
                        '(returned values + resulting wire bytes) must be identical to the native little-endian run with the same seed.  '
                        'distinct_nontrivial = transcript chunks compared between the two worlds.')
        return vlib.finish('C14', 'exploration', tier, seed, obs, cov, [
            'emulated big-endian memory model at -O0 on little-endian silicon: big-endian code generation and optimiser behaviour are out of reach',
            'ppc64 front-end: LP64, same struct layout as x86-64 for all types used; plain char unsigned (kept as part of the configuration)',
            'tools/beify.py refuses (exit 2) vectors, va_arg, atomics, inline asm, FP constants in initialisers; its canary must print big-endian images'],
            t0, min_evals=20)
    finally:
        work.cleanup()


CHECKS = dict(C14=c14)
