"""C18 (example listeners survive arbitrary datagrams) and C19 (example CAN tunnel is transparent)."""
import json, os, re, time
import vlib
from vlib import VERIF

LISTENERS = {
    # name: (monitor source, extra sources relative to the repository, modes)
    'can':   ('lst_can.c',   [], 4),
    'cvf':   ('lst_cvf.c',   ['examples/common/common.c'], 1),
    'aaf':   ('lst_aaf.c',   ['examples/common/common.c'], 1),
    'hello': ('lst_hello.c', [], 2),
    'vss':   ('lst_vss.c',   [], 2),
    'crf':   ('lst_crf.c',   ['examples/common/common.c'], 2),
}


def lst_sources(name):
    mon, extra, _ = LISTENERS[name]
    return vlib.lib_sources() + vlib.core_sources() + [os.path.join(VERIF, 'model', 'vssref.c'), os.path.join(VERIF, 'mon', mon)] + \
        [os.path.join(vlib.REPO, e) for e in extra]


def build_listener(work, name, flags=None, tag='asan'):
    return vlib.compile_many(work, 'lst_%s_%s' % (name, tag), lst_sources(name), flags or vlib.ASAN_FLAGS,
                             extra_inc=[os.path.join(vlib.REPO, 'examples')], link_flags=['-lm'])


def classify(d):
    """violation key for one abnormal child"""
    se = d.get('stderr', '').replace('\\n', '\n')
    reps = vlib.parse_sanitizer(se)
    if reps:
        return reps[0][0]
    if d.get('status') == 'signal':
        return 'signal-%s' % d.get('signal')
    code = d.get('code')
    if code == 77:
        return 'cpu-budget-exceeded-handling-one-datagram'
    if code == 79:
        return 'unbounded-frame-loop'
    if code == 78:
        return 'sentinel-datagram-not-handled-after-hostile-sequence'
    if code == 81:
        return 'frames-forwarded-that-the-datagram-does-not-contain'
    if code == 82:
        return 'stack-grows-with-every-datagram'
    if code == 85:
        return 'receive-path-blocked-in-a-system-call'
    if code == 84:
        return 'listener-terminated-instead-of-processing-the-next-datagram'
    if code == 83:
        return 'valid-packet-of-a-long-stream-not-forwarded'
    if code == 80:
        return 'HARNESS'
    return 'exit-%s' % code


def run_listener(obs, binary, name, count, seed, nproc):
    _, _, nmodes = LISTENERS[name]
    chunk = max(1, count // nproc)
    jobs = [dict(VP_SEED=seed, VP_COUNT=chunk, VP_FIRST=i * chunk) for i in range(nproc)]

    def one(env):
        rc, so, se = vlib.run([binary], env=dict({k: str(v) for k, v in env.items()}, ASAN_OPTIONS='detect_leaks=0:abort_on_error=0', UBSAN_OPTIONS='print_stacktrace=1', MSAN_OPTIONS='check_printf=1'), timeout=3000)   # %s arguments of the listeners' printf calls are checked too
        return env, rc, so, se
    for env, rc, so, se in vlib.run_parallel(one, jobs):
        obs.procs += 1
        ended = vlib.parse_output(obs, so, name)
        if ended:
            obs.ended += 1
        else:
            obs.inconclusive.append('listener monitor %s did not finish (rc=%s): %s' % (name, rc, se[-300:]))
        for line in so.splitlines():
            if line.startswith('F|'):
                try:
                    d = json.loads(line[2:])
                except Exception:
                    obs.inconclusive.append('unparsable F line from ' + name)
                    continue
                k = classify(d)
                if k == 'HARNESS':
                    obs.inconclusive.append('harness failure in %s child: %s' % (name, d.get('stderr', '')[:200]))
                    continue
                d['stderr'] = d.get('stderr', '')[:1500]
                obs.add_viol('lst:%s:%s:%s' % (d['listener'], d['mode'], k), d,
                             source=dict(binary=os.path.basename(binary), env=dict(VP_SEED=env['VP_SEED'], VP_COUNT=1, VP_FIRST=d.get('index'), VP_LMODE=d.get('mode_index'))))


def memcheck_listener(obs, work, name, seed):
    b = build_listener(work, name, ['-O0', '-g'], 'plain')
    log = work.path('mc_%s' % name)
    rc, so, se = vlib.run(['valgrind', '--quiet', '--trace-children=no', '--log-file=' + log + '.%p', '--error-exitcode=0', b],
                          env=dict(VP_SEED=str(seed), VP_COUNT='40'), timeout=3000)
    import glob
    n = 0
    for f in glob.glob(log + '.*'):
        txt = open(f).read()
        for m in re.finditer(r'==\d+== (Invalid (?:read|write) of size \d+|Use of uninitialised value of size \d+|Conditional jump or move depends on uninitialised value\(s\)|Syscall param [^\n]*uninitialised[^\n]*)\n((?:==\d+==    (?:at|by) [^\n]*\n)+)', txt):
            kind = m.group(1)
            fr = re.search(r'(?:at|by) 0x[0-9A-F]+: (\w+) \(([\w-]+\.c):\d+\)', m.group(2))
            infr = [x for x in re.finditer(r'(?:at|by) 0x[0-9A-F]+: (\w+) \(([\w-]+\.c):\d+\)', m.group(2)) if not x.group(2).startswith('lst_') and x.group(2) not in ('vpcore.c', 'platform_native.c')]
            if not infr:
                continue
            n += 1
            key = 'lst:%s:memcheck:%s:%s:%s' % (name, re.sub(r'\d+', 'N', kind).replace(' ', '-'), infr[0].group(2), infr[0].group(1))
            if kind.startswith('Conditional jump'):
                obs.notes.append(key)        # uninitialised data steering control flow: reported as observation
            else:
                obs.add_viol(key, dict(report=m.group(0)[:1200]))
    obs.stat('memcheck_sequences', 40 * LISTENERS[name][2])
    return n


def fuzz_stage(obs, work, bins, seed, runs):
    """Thorough tier: coverage-guided stage (clang libFuzzer + ASan + UBSan) on the same receive code.  The first input byte
    selects the listener mode, the rest is one datagram; listener state persists across inputs.  Crash artifacts are keyed by
    their sanitizer report; timeout artifacts are re-run through the fork-server monitor (CPU budget) before they count."""
    flags = ['-O1', '-g', '-DLST_FUZZ', '-fsanitize=fuzzer,address,undefined', '-fno-sanitize=alignment', '-fno-sanitize-recover=all']
    names = list(LISTENERS)
    fb = dict(vlib.run_parallel(lambda n: (n, vlib.compile_many(work, 'fuzz_' + n, lst_sources(n), flags, cc='clang',
                                                                 extra_inc=[os.path.join(vlib.REPO, 'examples')], link_flags=['-lm'])), names, workers=6))
    jobs = []
    for n in names:
        corp = work.path('corpus_' + n)
        os.makedirs(corp, exist_ok=True)
        vlib.run([bins[n]], env=dict(VP_SEED=str(seed), VP_COUNT='48', VP_CORPUS=corp, ASAN_OPTIONS='detect_leaks=0'), timeout=600)
        for k in range(3 if n in ('can', 'vss') else 2):
            jobs.append((n, k, corp))

    def one(j):
        n, k, corp = j
        art = work.path('art_%s_%d' % (n, k))
        out = work.path('corpout_%s_%d' % (n, k))
        os.makedirs(art, exist_ok=True)
        os.makedirs(out, exist_ok=True)
        rc, so, se = vlib.run([fb[n], out, corp, '-runs=%d' % runs, '-max_len=1501', '-seed=%d' % (int(seed) * 10 + k + 1), '-artifact_prefix=' + art + '/',
                               '-timeout=25', '-rss_limit_mb=6000', '-use_value_profile=1', '-print_final_stats=1'],
                              env=dict(ASAN_OPTIONS='detect_leaks=0', UBSAN_OPTIONS='print_stacktrace=1'), timeout=7200)
        return j, rc, se, art
    total_exec, total_cov, arts = 0, {}, 0
    import re as _re
    for (n, k, corp), rc, se, art in vlib.run_parallel(one, jobs):
        m = _re.search(r'stat::number_of_executed_units: (\d+)', se)
        total_exec += int(m.group(1)) if m else 0
        c = _re.findall(r'cov: (\d+) ft: (\d+)', se)
        if c:
            total_cov['%s#%d' % (n, k)] = dict(cov=int(c[-1][0]), features=int(c[-1][1]))
        files = sorted(os.listdir(art))
        for fn in files:
            arts += 1
            data = open(os.path.join(art, fn), 'rb').read()
            if fn.startswith('timeout-') or fn.startswith('oom-') or fn.startswith('slow-unit-'):
                # decide with the CPU-budgeted fork-server monitor
                mode = data[0] % LISTENERS[n][2] if data else 0
                r2, so2, se2 = vlib.run([bins[n]], env=dict(VP_SEED='1', VP_COUNT='1', VP_LMODE=str(mode), VP_REPLAY=data[1:].hex() or '00', ASAN_OPTIONS='detect_leaks=0'), timeout=600)
                hit = [l for l in so2.splitlines() if l.startswith('F|')]
                if hit:
                    d = json.loads(hit[0][2:])
                    obs.add_viol('lst:%s:%s:%s' % (d['listener'], d['mode'], classify(d)), dict(d, fuzz_artifact=fn))
                else:
                    obs.notes.append('fuzz %s artifact %s did not reproduce under the CPU-budgeted monitor' % (n, fn))
                continue
            reps = vlib.parse_sanitizer(se)
            key = reps[0][0] if reps else 'fuzz-crash'
            obs.add_viol('lst:%s:fuzz:%s' % (n, key), dict(artifact=fn, input_hex=data[:200].hex(), report=se[-3000:]))
        if rc != 0 and not files:
            obs.inconclusive.append('fuzz process %s#%d exited %s without artifact: %s' % (n, k, rc, se[-300:]))
    obs.stat('evals', total_exec)
    return dict(executions=total_exec, artifacts=arts, final_coverage=total_cov, runs_per_process=runs, processes=len(jobs))


def c18(tier, seed):
    t0 = time.time()
    work = vlib.Work('C18')
    try:
        obs = vlib.Obs()
        count = 2400 if tier == 'quick' else 160000      # sequences per listener mode
        names = list(LISTENERS)
        bins = dict(vlib.run_parallel(lambda n: (n, build_listener(work, n)), names, workers=6))
        for n in names:
            run_listener(obs, bins[n], n, count, seed, nproc=16 if tier == 'quick' else 32)
        # the same scripts in a clang MemorySanitizer build: recv() marks exactly the received bytes as initialised, so anything a
        # listener reads behind the end of the datagram (stale bytes of an earlier one, still inside its buffer) and then uses is reported
        def msan_build(n):
            try:
                return n, vlib.compile_many(work, 'lst_%s_msan' % n, lst_sources(n), vlib.MSAN_FLAGS, cc='clang',
                                            extra_inc=[os.path.join(vlib.REPO, 'examples')], link_flags=['-lm'])
            except vlib.HarnessError:
                return n, None
        mbins = dict(vlib.run_parallel(msan_build, names, workers=6))
        nt0 = dict(obs.stats)
        for n in names:
            if mbins[n] is None:
                obs.notes.append('MemorySanitizer build of the %s listener monitor skipped (could not be built)' % n)
                continue
            run_listener(obs, mbins[n], n, 192 if tier == 'quick' else 6400, int(seed) + 11, nproc=16)
        for k in ('lst.sequences', 'lst.templates', 'nontrivial'):
            obs.stats[k] = nt0.get(k, 0)
        fuzz = None
        if tier == 'thorough':
            for n in names:
                memcheck_listener(obs, work, n, seed)
            fuzz = fuzz_stage(obs, work, bins, seed, runs=int(os.environ.get('VERIF_FUZZ_RUNS', '12000000')))
        cov = dict(distinct_nontrivial=int(obs.stats.get('lst.sequences', 0)), templates=int(obs.stats.get('lst.templates', 0)),
                   abnormal_children=int(obs.stats.get('lst.abnormal', 0)), memcheck_observations=sorted(set(obs.notes))[:20], fuzz_stage=fuzz,
                   rule='6 listeners x their modes (acf-can raw/udp x classic/fd, cvf, aaf, hello-world raw/udp, acf-vss raw/udp, crf '
                        'listener/talker mode) x %d sequences per mode of 1..5 datagrams: valid packets built with the library, then '
                        'truncation at any length and 0..64, length-field lies (0, 1, max, beyond the datagram), zero-length ACF '
                        'messages, wrong types, unterminated strings filling 1500 bytes, every VSS address mode x datatype, bit flips, '
                        'random bytes, empty and 1500-byte datagrams, followed by a known-good sentinel packet.  The real receive code '
                        '(new_packet / *_recv_pdu / the main loop, #included with recv/write renamed, fed through an AF_UNIX datagram '
                        'socket pair) runs in one forked ASan+UBSan child per sequence with a 2 s CPU budget per datagram; a report, '
                        'signal, budget overrun, >16384 frames per datagram or a mishandled sentinel is a violation.  Every sequence '
                        'is a distinct generated script (distinct_nontrivial = sequences run).  A slice of the scripts runs again in a clang MemorySanitizer build (use of bytes behind the end of the datagram).  Thorough tier adds memcheck on 40 sequences per mode and a '
                        'coverage-guided libFuzzer+ASan+UBSan stage on the same receive code (fuzz_stage in this record).' % count)
        return vlib.finish('C18', 'exploration', tier, seed, obs, cov, [
            'receive path = the handler / loop body; whether main() exits when a handler returns -1 is not judged',
            'AF_UNIX SOCK_DGRAM pairs stand in for the AF_PACKET/UDP sockets (kernel datagram truncation semantics preserved)',
            'bounded time is operationalised as 2 s of CPU time per datagram (ITIMER_VIRTUAL) and a 16384-frame bound; an unbounded eventually is not decidable by a finite run'],
            t0, min_evals=1000)
    finally:
        work.cleanup()


def c19(tier, seed):
    t0 = time.time()
    work = vlib.Work('C19')
    try:
        obs = vlib.Obs()
        src = vlib.lib_sources() + vlib.core_sources() + [os.path.join(VERIF, 'mon', x) for x in ('tun_talker.c', 'tun_listener.c', 'tunnel.c')]
        b = vlib.compile_many(work, 'tunnel_asan', src, vlib.ASAN_FLAGS, extra_inc=[os.path.join(vlib.REPO, 'examples')])
        nseeds = 16 if tier == 'quick' else 64
        packets = 25 if tier == 'quick' else 1500
        jobs = [dict(VP_SEED=int(seed) * 1000 + i, VP_PACKETS=packets) for i in range(nseeds)]
        vlib.run_parallel(lambda e: vlib.run_monitor(obs, b, e, tag='tunnel', timeout=3000), jobs)
        cov = dict(distinct_nontrivial=int(obs.stats.get('nontrivial', 0)), frames=int(obs.stats.get('tunnel.frames', 0)),
                   packets=int(obs.stats.get('tunnel.packets', 0)),
                   rule='the real acf-can-talker main() runs in a child process (its CAN, UDP and raw sockets replaced by socket-pair '
                        'ends, options through its own argp parser) for {TSCF, NTSCF} x {UDP, raw} x {classic, FD} x frames-per-packet '
                        '{1, 2, 3, 7, 60/18, the maximum number of full-length frames that fits 1500 bytes, one random count}, every third packet with all frames of maximum length, plus one 600-packet stream per run (sequence numbers wrap); %d runs x %d packets per configuration of frames with unique serial numbers over '
                        'identifier classes (11-bit, 29-bit, 29-bit-flagged id <= 0x7FF, RTR, extremes), BRS/ESI/FDF combinations varying '
                        'within a packet, every length 0..8 / 0..64; each packet: control-format length compared with an independent walk '
                        'of the ACF messages, then handed to the real listener new_packet(); the frames it writes must match the input '
                        'exactly once and in order (identifier, EFF/RTR, BRS/ESI, FDF if set, length, data).  distinct_nontrivial = '
                        'frames compared (each carries a unique serial).' % (nseeds, packets))
        return vlib.finish('C19', 'exploration', tier, seed, obs, cov, [
            'AF_UNIX socket pairs stand in for PF_CAN and AF_PACKET/UDP sockets (unavailable in the sandbox)',
            'BRS/ESI compared strictly, FDF required on output only when present on input; bytes of the frame object beyond len are not compared',
            'frames-per-packet counts are limited to what fits the talker\'s 1500-byte buffer'],
            t0, min_evals=2000)
    finally:
        work.cleanup()


def _tunnel(work):
    src = vlib.lib_sources() + vlib.core_sources() + [os.path.join(VERIF, 'mon', x) for x in ('tun_talker.c', 'tun_listener.c', 'tunnel.c')]
    return vlib.compile_many(work, 'tunnel_asan', src, vlib.ASAN_FLAGS, extra_inc=[os.path.join(vlib.REPO, 'examples')])


def _msan_listener(n):
    return lambda work: vlib.compile_many(work, 'lst_%s_msan' % n, lst_sources(n), vlib.MSAN_FLAGS, cc='clang', extra_inc=[os.path.join(vlib.REPO, 'examples')], link_flags=['-lm'])


BUILDERS = dict([('lst_%s_asan' % n, (lambda n: (lambda work: build_listener(work, n)))(n)) for n in LISTENERS] + [('lst_%s_msan' % n, _msan_listener(n)) for n in LISTENERS] + [('tunnel_asan', _tunnel)])
CHECKS = dict(C18=c18, C19=c19)
