"""C15: results do not depend on where the PDU lies in memory (placement x optimisation level x compiler)."""
import os, time, collections
import vlib
from vlib import VERIF
import vchecks_field as F
import vchecks_vss as V

ALIGN_FLAGS = ['-O1', '-g', '-fno-omit-frame-pointer', '-fsanitize=alignment']


def build_all(work, tag, cc, flags):
    fm = vlib.compile_many(work, 'fieldmon_' + tag, F.fieldmon_sources(work), flags, cc=cc)
    vm = vlib.compile_many(work, 'vssmon_' + tag, V.vss_sources(), flags, cc=cc)
    cm = vlib.compile_many(work, 'canmon_' + tag, V.can_sources(), flags, cc=cc)
    return dict(fieldmon=fm, vssmon=vm, canmon=cm)


def jobs_for(bins, tag, places, scale, seed):
    jobs = []
    for pl in places:
        for mode in ('read', 'write', 'init', 'legacy', 'raw', 'views', 'history', 'direct'):
            jobs.append((bins['fieldmon'], dict(VP_MODE=mode, VP_FORMATS='all', VP_REPS=8 * scale, VP_EPISODES=30 * scale, VP_PLACE=pl,
                                                VP_SAMPLES=0), 'fieldmon/%s' % mode, tag, pl))
        jobs.append((bins['canmon'], dict(VP_REPS=1, VP_PLACE=pl), 'canmon/build', tag, pl))
        for mode, cases in (('encode', 1200 * scale), ('decode', 700 * scale), ('pad', 1), ('strarr', 150 * scale)):
            jobs.append((bins['vssmon'], dict(VP_MODE=mode, VP_CASES=cases, VP_PLACE=pl, VP_CANARY=1), 'vssmon/%s' % mode, tag, pl))
    return [(b, dict(e, VP_SEED=seed), eng, tag, pl) for (b, e, eng, tag, pl) in jobs]


def c15(tier, seed):
    t0 = time.time()
    work = vlib.Work('C15')
    try:
        obs = vlib.Obs()
        if tier == 'thorough':
            opts = [(cc, o) for cc in ('gcc', 'clang') for o in ('O0', 'O1', 'O2', 'O3')]
            scale = 6
        else:
            opts = [('gcc', 'O0'), ('gcc', 'O2'), ('gcc', 'O3'), ('clang', 'O1'), ('clang', 'O3')]
            scale = 1
        places = list(range(8))
        variants = [('%s-%s' % (cc, o), cc, ['-' + o, '-g']) for cc, o in opts]
        variants += [('align-gcc', 'gcc', ALIGN_FLAGS), ('align-clang', 'clang', ALIGN_FLAGS)]
        built = vlib.run_parallel(lambda v: (v[0], build_all(work, v[0].replace('-', '_'), v[1], v[2])), variants, workers=4)
        jobs = []
        for tag, bins in built:
            jobs += jobs_for(bins, tag, places, scale, seed)
        hashes = collections.defaultdict(dict)     # (engine, chunk) -> {(tag, place): hash}

        def one(j):
            b, env, eng, tag, pl = j
            o = vlib.Obs()
            rc, so, se = vlib.run_monitor(o, b, env, tag=tag, sanitizer_env=False, timeout=1800)
            return j, o
        results = vlib.run_parallel(one, jobs)
        for (b, env, eng, tag, pl), o in results:
            obs.procs += o.procs
            obs.ended += o.ended
            obs.inconclusive += o.inconclusive
            for k, v in o.stats.items():
                obs.stat(k, v)
            obs.samples += o.samples[:1]
            for key, v in o.viol.items():
                if key.startswith('UBSan:'):
                    path = key.split(':')[1]
                    if not (path.startswith('src/') or path.startswith('include/')):
                        obs.inconclusive.append('sanitizer report outside the library: ' + key)
                        continue
                    if 'misaligned' not in key and 'alignment' not in key:
                        continue
                    obs.add_viol(key, dict(v['details'][0] if v['details'] else {}, build=tag, place=pl, engine=eng), source=v.get('source'))
                else:
                    obs.add_viol('%s@place%d' % (key, pl) if pl else key, dict(v['details'][0] if v['details'] and isinstance(v['details'][0], dict) else {}, build=tag, place=pl), count=v['count'], source=v.get('source'))
            for (t, chunk), (h, n) in o.hashes.items():
                hashes[(eng, chunk)][(tag, pl)] = (h, n)
        # differential oracle: identical transcript for every placement and every build
        ncmp = 0
        distinct_cfg = set()
        for (eng, chunk), m in sorted(hashes.items()):
            cnt = collections.Counter(h for h, n in m.values())
            ncmp += len(m)
            distinct_cfg.update(m.keys())
            if len(cnt) > 1:
                major = cnt.most_common(1)[0][0]
                odd = sorted('%s/place%d' % k for k, (h, n) in m.items() if h != major)
                obs.add_viol('transcript-differs:%s:%s' % (eng, chunk), dict(differing=odd[:20], configurations=len(m)))
        obs.stat('evals', ncmp)
        obs.samples = [dict(engine=e, chunk=ch, transcript_hash=list(m.values())[0][0], items=list(m.values())[0][1], identical_in_configurations=len(m)) for (e, ch), m in sorted(hashes.items())[:6]] + obs.samples[:4]
        cov = dict(distinct_nontrivial=len(hashes) * len(distinct_cfg) if hashes else 0,
                   transcript_chunks=len(hashes), configurations=len(distinct_cfg), transcript_comparisons=ncmp,
                   build_variants=[v[0] for v in variants], placements=places,
                   rule='the quick corpora of C01-C10 (fieldmon read/write/init/legacy/raw/views/history, canmon, vssmon encode/decode/pad/'
                        'strarr; model oracle active at every offset) executed with the PDU at byte offsets 0..7 from a 16-byte boundary in '
                        'builds %s: (a) every UBSan alignment report inside src/ or include/ is a violation; (b) the transcript hash (all '
                        'returned values and resulting bytes) of every chunk must be identical across all placements and builds; (c) any '
                        'oracle mismatch, signal or crash at any offset is a violation.  distinct_nontrivial = transcript chunks x '
                        '(build, placement) configurations compared.' % ', '.join(v[0] for v in variants))
        return vlib.finish('C15', 'exploration', tier, seed, obs, cov, [
            'x86-64 tolerates misaligned scalar accesses, so (a) relies on UBSan -fsanitize=alignment instrumentation of gcc 12 and clang 14',
            'transcripts contain values and bytes only, never addresses; the PRNG stream does not depend on the placement',
            'optimisation levels -O0..-O3 of two compilers; other compilers / targets (strict-alignment hardware) are out of reach'],
            t0, min_evals=100)
    finally:
        work.cleanup()


CHECKS = dict(C15=c15)
