#!/usr/bin/env python3
"""keep_seed.py <deliver dir> <seed id>: copy a confirmed seeded change into /verif/seeded/<id>/."""
import json, os, shutil, sys
src, sid = sys.argv[1], sys.argv[2]
dst = os.path.join('/verif/seeded', sid)
os.makedirs(dst, exist_ok=True)
for f in os.listdir(src):
    p = os.path.join(src, f)
    if os.path.isfile(p) and f.endswith(('.c', '.h', '.sh', '.diff', '.json', '.cpp', '.txt', '.py', '.bin', '.hpp')):
        shutil.copy(p, dst)
    elif os.path.isdir(p) and not f.startswith(('_', '.')):
        # support files of the demonstration (stub headers, extra sources); build output is not kept
        shutil.copytree(p, os.path.join(dst, f), dirs_exist_ok=True,
                        ignore=shutil.ignore_patterns('*.o', '*.a', '*.so', 'demo', 'demo32', '_build', 'CMakeFiles'))
m = json.load(open(os.path.join(dst, 'meta.json')))
m['id'] = sid
m['confirmed'] = dict(by='tools/confirm_seed.sh in a scratch worktree of /repo HEAD',
                      ran='git apply patch.diff; cmake build; ctest (192 tests pass); demo exits non-zero with the patch and 0 without')
json.dump(m, open(os.path.join(dst, 'meta.json'), 'w'), indent=1)
print(sid, m.get('summary', '')[:100])
