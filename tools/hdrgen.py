#!/usr/bin/env python3
"""hdrgen.py - generator/observer for C20 (public headers can be combined freely).

For every public header alone, its public names (object-like integer macros, enumerators, struct
typedefs) are found by running the preprocessor (-E -dD) and attributing each name to the file
that defines it; a generated program prints every name's value (sizeof/offsetof for types).
For every ordered pair (and larger sets) the same dump is generated for the union of names,
compiled as C99 and C++, linked against the library and run; the oracle is equality of every
printed line with the alone-dump.  Field enumerators are additionally mapped, by executing the
format's generic writer, to the header bits they designate.
"""
import concurrent.futures as cf
import glob, hashlib, os, re, subprocess, sys

NCPU = os.cpu_count() or 4


def sh(cmd, timeout=300, **kw):
    p = subprocess.run(cmd, stdout=subprocess.PIPE, stderr=subprocess.PIPE, timeout=timeout, **kw)
    return p.returncode, p.stdout.decode('utf-8', 'replace'), p.stderr.decode('utf-8', 'replace')


def public_headers(repo):
    inc = os.path.join(repo, 'include')
    hs = sorted(os.path.relpath(p, inc) for p in glob.glob(os.path.join(inc, 'avtp', '**', '*.h'), recursive=True))
    return hs


def scan_header(repo, h):
    """names owned by header h (defined in h's own file): macros, enumerators, struct typedefs"""
    inc = os.path.join(repo, 'include')
    rc, so, se = sh(['gcc', '-std=c99', '-E', '-dD', '-I' + inc, '-include', h, '-x', 'c', '/dev/null'])
    if rc != 0:
        return None, se
    target = os.path.join(inc, h)
    cur = None
    own_lines = []
    macros = []
    for line in so.split('\n'):
        m = re.match(r'^# \d+ "([^"]+)"', line)
        if m:
            cur = os.path.normpath(m.group(1))
            continue
        if cur != os.path.normpath(target):
            continue
        dm = re.match(r'^#define (\w+)(\(?)(.*)$', line)
        if dm:
            name, paren, body = dm.groups()
            if paren == '(' or not body.strip():
                continue                       # function-like or empty (include guards)
            macros.append((name, body.strip()))
            continue
        if line.startswith('#'):
            continue
        own_lines.append(line)
    text = '\n'.join(own_lines)
    text = re.sub(r'/\*.*?\*/', '', text, flags=re.S)
    enums = []
    for em in re.finditer(r'enum\s*\w*\s*\{([^}]*)\}', text, flags=re.S):
        for item in em.group(1).split(','):
            nm = item.strip().split('=')[0].strip()
            if re.match(r'^[A-Za-z_]\w*$', nm):
                enums.append(nm)
    types = []
    for tm in re.finditer(r'typedef\s+(struct|union)\s*\w*\s*\{(.*?)\}\s*(\w+)\s*;', text, flags=re.S):
        body = tm.group(2)
        if '{' in body:
            continue
        has_payload = bool(re.search(r'\bpayload\s*\[', body))
        types.append((tm.group(3), has_payload))
    for tm in re.finditer(r'struct\s+(\w+)\s*\{([^{}]*)\}\s*__attribute__', text, flags=re.S):
        types.append(('struct ' + tm.group(1), False))
    return dict(header=h, macros=macros, enums=enums, types=types, byteorder=bool(re.search(r'\bAvtp_CpuToBe32\s*\(', so))), None


def dump_snippet(info, tag):
    """C/C++ source of a function that prints all names owned by one header"""
    o = ['static void dump_%s(void) {' % tag]
    for name, body in info['macros']:
        o.append('#ifdef %s' % name)
        o.append('  P("%s", "%s", (long long)(%s));' % (info['header'], name, name))
        if name not in info.get('notype', ()):
            # the macro's type (size and signedness of the expression): a value that keeps its number but changes from int to an
            # unsigned enumeration type changes the meaning of comparisons and arithmetic written with it
            o.append('  P("%s", "%s__type", (long long)(sizeof(%s) * 2 + ((__typeof__(%s))-1 < 0)));' % (info['header'], name, name, name))
        o.append('#else')
        o.append('  printf("%s|%s|undefined\\n");' % (info['header'], name))
        o.append('#endif')
    for name in info['enums']:
        o.append('  P("%s", "%s", (long long)(%s));' % (info['header'], name, name))
    for tname, has_payload in info['types']:
        o.append('  P("%s", "sizeof(%s)", (long long)sizeof(%s));' % (info['header'], tname, tname))
        o.append('  P("%s", "alignof(%s)", (long long)__alignof__(%s));' % (info['header'], tname, tname))
        if has_payload:
            o.append('  P("%s", "offsetof(%s,payload)", (long long)offsetof(%s, payload));' % (info['header'], tname, tname))
    o.append('}')
    return '\n'.join(o)


def probe_snippet(fmt, tag):
    """direct-call behaviour probe for the format declared by a header: for every accessor, in one function:
    get; set; get; replace the header bytes; get.  Printed values must not depend on what else was included
    (a declaration-level change such as a const/pure attribute or another prototype shows here at -O2)."""
    T = fmt['type']
    n = fmt['bytes']
    o = ['static void probe_%s(void) {' % tag,
         '  unsigned char buf[80], alt[80]; unsigned long long a, b, c; %s* p = (%s*)buf; int i;' % (T, T),
         '  for (i = 0; i < 80; i++) { buf[i] = (unsigned char)(i * 37 + 11); alt[i] = (unsigned char)(i * 101 + 7); }']
    api = fmt['api']
    k = 0
    for x in fmt['fields']:
        k += 1
        val = '0x%xULL' % ((0x5A5A5A5A5A5A5A5A ^ (k * 0x0101010101010101)) & 0xFFFFFFFFFFFFFFFF)
        cast = '(%s)' % fmt.get('enumtype') if fmt.get('enumtype') else ''
        o.append('  a = %s(p, %s); %s(p, %s, %s); b = %s(p, %s); memcpy(buf, alt, %d); c = %s(p, %s);' % (
            api['gget'], x['enum'], api['gset'], x['enum'], val, api['gget'], x['enum'], n, api['gget'], x['enum']))
        o.append('  printf("%s|probe:%s:generic|%%llu,%%llu,%%llu\\n", a, b, c);' % (fmt['header'], x['name']))
        if x['dget']:
            o.append('  a = (unsigned long long)%s(p); b = (unsigned long long)%s(p); memcpy(buf, alt, %d); c = (unsigned long long)%s(p);' % (
                x['dget'], x['dget'], n, x['dget']))
            o.append('  printf("%s|probe:%s:dedicated|%%llu,%%llu,%%llu\\n", a, b, c);' % (fmt['header'], x['name']))
    o.append('}')
    return '\n'.join(o)


def make_tu(headers, infos, formats=None, includes_only=False, lang='c'):
    o = ['/* generated by tools/hdrgen.py */']
    for h in headers:
        o.append('#include "%s"' % h)
    if includes_only:
        o.append('int vp_second_tu_%s;' % hashlib.sha1('+'.join(headers).encode()).hexdigest()[:8])
        return '\n'.join(o) + '\n'
    o.append('#include <stdio.h>\n#include <stddef.h>\n#include <string.h>')
    o.append('static void P(const char* h, const char* n, long long v) { printf("%s|%s|%lld\\n", h, n, v); }')
    tags = []
    for i, h in enumerate(headers):
        tag = 'h%d' % i
        tags.append('dump_' + tag)
        o.append(dump_snippet(infos[h], tag))
        if formats and h in formats and lang == 'c':
            o.append(probe_snippet(formats[h], tag))
            tags.append('probe_' + tag)
    if any(infos[h].get('byteorder') for h in headers):
        # the inline byte-order helpers are compiled into this unit: what they do must not depend on what else was included
        # or on the order (feature-test macros, libc headers seen earlier); run-time values, not constants
        o.append('static void probe_byteorder(void) {')
        o.append('  volatile unsigned long long s = 0x0102030405060708ULL; unsigned long long x = s;')
        for nm, T in (('CpuToBe', ''), ('BeToCpu', ''), ('CpuToLe', ''), ('LeToCpu', '')):
            for w in (16, 32, 64):
                o.append('  printf("avtp/Byteorder.h|probe:%s%d|%%llu\\n", (unsigned long long)Avtp_%s%d((uint%d_t)x));' % (nm, w, nm, w, w))
        o.append('}')
        tags.append('probe_byteorder')
    o.append('int main(void) { %s return 0; }' % ' '.join('%s();' % t for t in tags))
    return '\n'.join(o) + '\n'


def norm_diag(se):
    for line in se.splitlines():
        m = re.search(r'(error|fatal error): (.*)$', line)
        if m:
            d = m.group(2)
            d = re.sub(r"[‘’`']", "'", d)
            d = re.sub(r'\s+', ' ', d)
            return d[:100]
    return 'compiler failed'


import itertools
_serial = itertools.count()


class Runner:
    def __init__(self, repo, workdir, libobjs):
        self.repo, self.work, self.libobjs = repo, workdir, libobjs
        self.inc = os.path.join(repo, 'include')

    def build_run(self, headers, infos, lang, formats=None, extra_flags=()):
        """returns ('ok', {(h,name): value}, dropped) or ('compile-error', diag, raw) / ('link-error', ..) / ('run-error', ..).
        Step 1 compiles a translation unit that only includes the headers: a failure there is the headers' fault.  Step 2
        compiles the dump; names whose dump line does not compile (not an integer constant expression here) are dropped and
        returned in `dropped` (the caller compares that with the header alone).  Step 3 links the dump with a second
        translation unit that includes the same headers (a definition leaking from a header breaks the link)."""
        # unique per call: the same header list may be scheduled twice (coupled triple that is also sampled) and run concurrently
        tag = hashlib.sha1(('+'.join(headers) + lang + ' '.join(extra_flags)).encode()).hexdigest()[:12] + '_%d' % next(_serial)
        ext = 'c' if lang == 'c' else 'cpp'
        src = os.path.join(self.work, 'tu_%s.%s' % (tag, ext))
        src2 = os.path.join(self.work, 'tu2_%s.%s' % (tag, ext))
        exe = os.path.join(self.work, 'tu_%s' % tag)
        cc = ['gcc', '-std=c99'] if lang == 'c' else ['g++', '-std=gnu++17']
        base = cc + ['-w', '-O2', '-I' + self.inc] + list(extra_flags)
        open(src2, 'w').write(make_tu(headers, infos, includes_only=True))
        rc, so, se = sh(base + ['-c', src2, '-o', exe + '.2.o'])
        if rc != 0:
            return 'compile-error', norm_diag(se), se[:1500]
        # the same unit under the other language standards a user may compile with (each header alone compiles under all of
        # them): fall-backs selected by __cplusplus / __STDC_VERSION__ (a hand-made static assertion for pre-C++11, say) exist
        # only there
        for std in (('-std=c11', '-std=c2x') if lang == 'c' else ('-std=c++98', '-std=c++20')):
            rc, so, se = sh([x for x in base if not x.startswith('-std=')] + [std, '-fsyntax-only', src2])
            if rc != 0:
                return 'compile-error', ('%s: ' % std[1:]) + norm_diag(se), se[:1500]
        # the same unit with the compiler's default diagnostics as errors: a declaration whose meaning depends on what was
        # included before (a struct tag first seen inside a parameter list, a conflicting redeclaration that is only a
        # warning) is diagnosed by default; the pinned headers are free of default diagnostics in every combination
        rc, so, se = sh([x for x in base if x != '-w'] + ['-Werror', '-c', src2, '-o', exe + '.3.o'])
        try:
            os.unlink(exe + '.3.o')
        except OSError:
            pass
        if rc != 0 and re.search(r"declared inside parameter list|its scope is only this definition|conflicting types|redefin|redeclar|incompatible|"
                                 r"previous (declaration|definition)|different (type|kind of symbol)|ambiguat", se):
            # only diagnostics about the meaning of a declared name count; others (a '#warning' deprecation note, for example) do not
            return 'compile-error', 'default-warning: ' + norm_diag(se), se[:1500]
        cur = {h: infos[h] for h in headers}
        dropped = set()
        for attempt in range(8):
            text = make_tu(headers, cur, formats, lang=lang)
            open(src, 'w').write(text)
            rc, so, se = sh(base + ['-c', src, '-o', exe + '.o'])
            if rc == 0:
                break
            lines = text.split('\n')
            bad = set()
            for m in re.finditer(r':(\d+):\d+: error', se):
                ln = int(m.group(1)) - 1
                mm = re.search(r'P\("([^"]*)", "(\w+)"', lines[ln]) if 0 <= ln < len(lines) else None
                if mm:
                    bad.add((mm.group(1), mm.group(2)))
            if not bad:
                return 'compile-error', 'dump code does not compile: ' + norm_diag(se), se[:1500]
            dropped |= bad
            cur = {h: dict(i, macros=[x for x in i['macros'] if (h, x[0]) not in dropped], enums=[x for x in i['enums'] if (h, x) not in dropped],
                           notype=set(i.get('notype', ())) | {n[:-6] for (hh, n) in dropped if hh == h and n.endswith('__type')})
                   for h, i in cur.items()}
        else:
            return 'compile-error', 'dump code does not compile', se[:1500]
        rc, so, se = sh((['gcc'] if lang == 'c' else ['g++']) + [exe + '.o', exe + '.2.o'] + self.libobjs + ['-o', exe])
        if rc != 0:
            d = re.search(r'(multiple definition of [^;\n]*|undefined reference to [^\n]*)', se)
            return 'link-error', re.sub(r"[`'‘’]", "'", d.group(1))[:100] if d else 'link failed', se[:1500]
        rc, so, se = sh([exe])
        for f in (src, src2, exe, exe + '.o', exe + '.2.o'):
            try:
                os.unlink(f)
            except OSError:
                pass
        if rc != 0:
            return 'run-error', 'exit %d' % rc, se[:500]
        vals = {}
        for line in so.splitlines():
            h, n, v = line.split('|', 2)
            vals[(h, n)] = v
        for h, n in dropped:
            vals[(h, n)] = 'not-an-integer-constant-expression'
        return 'ok', vals, ''


def coupled_triples(repo, headers, cap=400):
    """ordered triples of headers that define/undefine/test the same macro name: conflicts that need three headers in a
    particular order come from exactly such couplings (and from #pragma state), so they are enumerated completely."""
    inc = os.path.join(repo, 'include')
    names = {}
    for h in headers:
        txt = open(os.path.join(inc, h), errors='replace').read()
        txt = re.sub(r'/\*.*?\*/', '', txt, flags=re.S)
        for m in re.finditer(r'^[ \t]*#[ \t]*(define|undef|ifdef|ifndef|if|elif)\b(.*)$', txt, flags=re.M):
            for nm in re.findall(r'\b[A-Za-z_]\w*\b', m.group(2).split('//')[0])[: (1 if m.group(1) in ('define', 'undef', 'ifdef', 'ifndef') else 20)]:
                if nm in ('defined', '__cplusplus'):
                    continue
                names.setdefault(nm, set()).add(h)
        if re.search(r'#[ \t]*pragma[ \t]+(pack|push_macro|pop_macro)', txt):
            names.setdefault('#pragma-state', set()).add(h)
    groups = [sorted(v) for k, v in sorted(names.items()) if len(v) >= 2]
    triples, seen = [], set()
    for g in groups:
        if len(g) > 6:
            continue
        pool = list(g)
        if len(pool) == 2:        # add every third header as bystander? no: pairs are enumerated elsewhere
            continue
        for a in pool:
            for b in pool:
                for c in pool:
                    if len({a, b, c}) == 3 and (a, b, c) not in seen:
                        seen.add((a, b, c))
                        triples.append([a, b, c])
    return triples[:cap], {k: sorted(v) for k, v in names.items() if len(v) >= 2}


def compare(alone, vals, headers):
    """names whose value differs from the alone-dump"""
    changed = []
    for (h, n), v in vals.items():
        a = alone.get(h, {}).get(n)
        if a is not None and a != v:
            changed.append((h, n, a, v))
    for h in headers:
        for n in alone.get(h, {}):
            if (h, n) not in vals:
                changed.append((h, n, alone[h][n], 'missing'))
    return changed
