#!/usr/bin/env python3
"""seedtest.py [--tier quick] <seed id>... : apply each seeded change to a scratch worktree of /repo (equivalent to
applying it to /repo and undoing it, but safe while other runs use /repo), run the quick check of its property
(and any extra properties given as id:Cxx,Cyy), undo it, and record which checks caught it in seeded/RESULTS.json."""
import json, os, subprocess, sys
V = '/verif'
res_p = os.environ.get('SEED_RESULTS') or os.path.join(V, 'seeded', 'RESULTS.json')
results = json.load(open(res_p)) if os.path.exists(res_p) else {}
tier = 'quick'
args = sys.argv[1:]
if args and args[0] == '--tier':
    tier = args[1]; args = args[2:]
for a in args:
    sid, _, extra = a.partition(':')
    d = os.path.join(V, 'seeded', sid)
    meta = json.load(open(os.path.join(d, 'meta.json')))
    props = [meta['property']] + ([p for p in extra.split(',') if p] if extra else [])
    wt = '/tmp/seedwt.%d' % os.getpid()
    subprocess.run(['git', '-C', '/repo', 'worktree', 'add', '--detach', wt, 'HEAD', '-q'], check=True)
    subprocess.run(['git', '-C', wt, 'apply', os.path.join(d, 'patch.diff')], check=True)
    env = dict(os.environ, VERIF_REPO=wt, VERIF_EVIDENCE_DIR=os.path.join(V, '.work', 'evidence_seed'))
    try:
        for p in props:
            proc = subprocess.Popen([os.path.join(V, 'check'), p, '--tier', tier], stdout=subprocess.PIPE, stderr=subprocess.PIPE, text=True, cwd=V, env=env, start_new_session=True)
            try:
                so, se = proc.communicate(timeout=2400)
                r = subprocess.CompletedProcess(proc.args, proc.returncode, so, se)
            except subprocess.TimeoutExpired:
                import signal
                try:
                    os.killpg(proc.pid, signal.SIGKILL)      # only this check's own process group
                except ProcessLookupError:
                    pass
                proc.communicate()
                results.setdefault(sid, {})[p] = dict(rc=-1, caught=False, keys=['check timed out after 2400 s'], tier=tier)
                print('%-8s %s TIMEOUT' % (sid, p))
                continue
            keys = [l.strip()[4:] for l in r.stdout.splitlines() if l.startswith('  key=')]
            results.setdefault(sid, {})[p] = dict(rc=r.returncode, caught=r.returncode == 1, keys=keys[:6], tier=tier)
            print('%-8s %s rc=%d %s' % (sid, p, r.returncode, '; '.join(keys[:3])[:200]))
            if r.returncode == 2:
                print(r.stderr[-600:])
    finally:
        subprocess.run(['git', '-C', '/repo', 'worktree', 'remove', '--force', wt], check=True)
    json.dump(results, open(res_p, 'w'), indent=1, sort_keys=True)
# evidence files were rewritten by runs on a mutated tree: callers re-run the checks on the clean tree afterwards
