#!/usr/bin/env python3
"""mutate.py <n> [seed] : operator-level mutation analysis of the checks.

Draws n random single-token mutants of the library / example sources (literal +-1, relational and arithmetic operator
swaps, shift direction, & <-> |, statement deletion), applies each to a scratch worktree of /repo (outside /repo and
/verif, removed at the end), keeps those that still COMPILE AND PASS THE 192 UNIT TESTS, and runs the quick checks that
are mapped to the mutated file.  Survivors (pass the tests and all mapped checks) are listed for inspection: they are
either equivalent mutants or gaps.  Results: seeded/MUTATION.json (appended), one line per mutant on stdout.
No mutant is ever applied to /repo itself.
Environment: MUTATE_ONLY=<regex> restricts the files; MUTATE_IDENT=1 uses the copy/paste operators only (sibling
enumerator, other 16/32/64-bit width)."""
import json, os, random, re, subprocess, sys, time

V = '/verif'
WT = '/tmp/mutwt.%d' % os.getpid()
MAP = [
    (r'^src/avtp/Utils\.c$', ['C01', 'C02', 'C05', 'C11']),
    (r'^include/avtp/Byteorder\.h$', ['C13', 'C01', 'C02']),
    (r'^include/avtp/.*\.h$', ['C03', 'C20', 'C01', 'C02', 'C12', 'C06']),
    (r'^src/avtp/acf/Can\.c$', ['C06', 'C01', 'C02', 'C04']),
    (r'^src/avtp/acf/CanBrief\.c$', ['C06', 'C01', 'C02', 'C04']),
    (r'^src/avtp/acf/custom/Vss\.c$', ['C07', 'C08', 'C09', 'C10', 'C01', 'C02']),
    (r'^src/avtp/acf/custom/VssBrief\.c$', ['C01', 'C02', 'C04']),
    (r'^src/avtp/(CommonHeader|Crf|Rvf|aaf/Pcm|aaf/Aaf|cvf/Cvf)\.c$', ['C01', 'C02', 'C04', 'C12', 'C11']),
    (r'^src/avtp/.*\.c$', ['C01', 'C02', 'C04']),
    (r'^examples/acf-can/acf-can-talker\.c$', ['C19']),
    (r'^examples/acf-can/acf-can-listener\.c$', ['C18', 'C19']),
    (r'^examples/(cvf/cvf-listener|aaf/aaf-listener|hello-world/hello-world-listener|acf-vss/acf-vss-listener|crf/crf-listener)\.c$', ['C18']),
]


def sh(cmd, **kw):
    return subprocess.run(cmd, capture_output=True, text=True, **kw)


def files():
    out = sh(['git', '-C', '/repo', 'ls-files', 'src', 'include', 'examples']).stdout.split()
    if os.environ.get('MUTATE_ONLY'):
        out = [f for f in out if re.search(os.environ['MUTATE_ONLY'], f)]
    res = []
    for f in out:
        for pat, checks in MAP:
            if re.match(pat, f):
                res.append((f, checks))
                break
    return res


OPS = [
    (r'(?<![\w.])(\d+)(?![\w.])', lambda m, r: str(int(m.group(1)) + r.choice([1, -1])) if int(m.group(1)) < 70000 else None, 'literal+-1'),
    (r'<=', lambda m, r: '<', '<= -> <'), (r'(?<![<-])<(?![<=])', lambda m, r: '<=', '< -> <='),
    (r'>=', lambda m, r: '>', '>= -> >'), (r'(?<![>-])>(?![>=])', lambda m, r: '>=', '> -> >='),
    (r'==', lambda m, r: '!=', '== -> !='), (r'!=', lambda m, r: '==', '!= -> =='),
    (r'(?<![+\w\s(,=])\s*\+(?![+=])', lambda m, r: ' -', '+ -> -'), (r'(?<=[\w)\]])\s-(?![-=>])\s', lambda m, r: ' + ', '- -> +'),
    (r'<<(?!=)', lambda m, r: '>>', '<< -> >>'), (r'>>(?!=)', lambda m, r: '<<', '>> -> <<'),
    (r'(?<![&])&(?![&=])(?=\s*[\w(~])(?<=[\w)\]]\s&)', lambda m, r: '|', '& -> |'), (r'(?<![|])\|(?![|=])', lambda m, r: '&', '| -> &'),
    (r'&&', lambda m, r: '||', '&& -> ||'), (r'\|\|', lambda m, r: '&&', '|| -> &&'),
]


def ident_swaps(text):
    """copy/paste slips: a field enumerator replaced by a sibling of the same enumeration, a 16/32/64-bit helper or type by
    another width"""
    groups = {}
    for m in re.finditer(r'\bAVTP_[A-Z0-9]+(?:_[A-Z0-9]+)*?_FIELD_[A-Z0-9_]+\b', text):
        pre = m.group(0).split('_FIELD_')[0]
        groups.setdefault(pre, set()).add(m.group(0))
    return {k: sorted(v) for k, v in groups.items() if len(v) > 1}


def candidates(path, text, rng):
    """list of (line_no, new_line, description)"""
    lines = text.split('\n')
    out = []
    depth = 0
    in_comment = False
    for i, line in enumerate(lines):
        code = line
        if in_comment:
            if '*/' in code:
                in_comment = False
            continue
        if code.lstrip().startswith('/*') and '*/' not in code:
            in_comment = True
            continue
        s = code.strip()
        if not s or s.startswith(('//', '*', '/*', '#')):
            continue
        if 'SPDX' in s or 'Copyright' in s:
            continue
        body = re.sub(r'"(\\.|[^"\\])*"', '""', code.split('//')[0])
        for pat, fn, name in OPS:
            for m in re.finditer(pat, body):
                rep = fn(m, rng)
                if rep is None:
                    continue
                # apply at the same offsets in the original line (strings were blanked, offsets may shift: re-check)
                if code[m.start():m.end()] != body[m.start():m.end()]:
                    continue
                new = code[:m.start()] + rep + code[m.end():]
                if new != code:
                    out.append((i, new, '%s at col %d' % (name, m.start())))
        if os.environ.get('MUTATE_IDENT'):
            groups = candidates.groups if getattr(candidates, 'gtext', None) is text else None
            if groups is None:
                candidates.groups = groups = ident_swaps(text); candidates.gtext = text
            for m in re.finditer(r'\bAVTP_[A-Z0-9]+(?:_[A-Z0-9]+)*?_FIELD_[A-Z0-9_]+\b', body):
                if re.match(r'^\s*\[', code) or '=' in code.split(m.group(0))[0][-4:]:
                    continue                      # not the table index / enum definition itself
                sib = [x for x in groups.get(m.group(0).split('_FIELD_')[0], []) if x != m.group(0) and not x.endswith('_MAX')]
                if sib and not m.group(0).endswith('_MAX'):
                    out.append((i, code[:m.start()] + rng.choice(sib) + code[m.end():], 'sibling enumerator'))
            for m in re.finditer(r'(Be|Le)(16|32|64)\b|\b(u?int)(16|32|64)(_t)\b|data_(u?int)(16|32|64)\b', body):
                w = [x for x in ('16', '32', '64') if x not in m.group(0)]
                new = re.sub(r'16|32|64', rng.choice(w), m.group(0), count=1)
                out.append((i, code[:m.start()] + new + code[m.end():], 'other width'))
        if s.endswith(';') and not re.match(r'^(return|break|continue|goto|case|default|typedef|static|const|extern|struct|enum|uint|int|char|size_t|void|float|double|Avtp_\w+_t|Vss\w*_t)\b', s) and '=' in s or re.match(r'^\w+\(.*\);$', s):
            out.append((i, re.match(r'^\s*', code).group(0) + ';  /* statement deleted */', 'delete statement'))
    return out


def main():
    n = int(sys.argv[1]) if len(sys.argv) > 1 else 20
    seed = int(sys.argv[2]) if len(sys.argv) > 2 else 1
    rng = random.Random(seed)
    fl = files()
    weights = []
    texts = {}
    for f, _ in fl:
        texts[f] = open(os.path.join('/repo', f)).read()
        weights.append(max(20, min(400, texts[f].count('\n'))))
    sh(['git', '-C', '/repo', 'worktree', 'add', '--detach', WT, 'HEAD', '-q'], check=True)
    res_p = os.path.join(V, 'seeded', 'MUTATION.json')
    results = json.load(open(res_p)) if os.path.exists(res_p) else []
    try:
        b = os.path.join(WT, '_build')
        r = sh(['cmake', '-G', 'Ninja', '-S', WT, '-B', b, '-DUNIT_TESTING=ON', '-DCMAKE_BUILD_TYPE=RelWithDebInfo', '-DCMAKE_C_FLAGS=-Wno-error'])
        r = sh(['cmake', '--build', b])
        if r.returncode != 0:
            print('pristine build failed', r.stderr[-500:])
            return 2
        done = 0
        tried = 0
        while done < n and tried < n * 12:
            tried += 1
            (f, checks) = rng.choices(fl, weights)[0]
            cands = candidates(f, texts[f], rng)
            if not cands:
                continue
            if os.environ.get('MUTATE_IDENT'):
                cands = [c for c in cands if c[2] in ('sibling enumerator', 'other width')]
                if not cands:
                    continue
            ln, new, desc = rng.choice(cands)
            lines = texts[f].split('\n')
            old = lines[ln]
            lines[ln] = new
            open(os.path.join(WT, f), 'w').write('\n'.join(lines))
            t0 = time.time()
            rec = dict(file=f, line=ln + 1, op=desc, old=old.strip()[:160], new=new.strip()[:160], seed=seed)
            r = sh(['cmake', '--build', b])
            if r.returncode != 0:
                rec['outcome'] = 'does-not-compile'
            else:
                r = sh(['ctest', '--test-dir', b, '-j8', '--timeout', '120'])
                if r.returncode != 0:
                    rec['outcome'] = 'killed-by-unit-tests'
                else:
                    rec['outcome'] = 'survived'
                    rec['checks'] = {}
                    env = dict(os.environ, VERIF_REPO=WT, VERIF_EVIDENCE_DIR=os.path.join(V, '.work', 'evidence_seed'))
                    for c in checks:
                        p = subprocess.Popen([os.path.join(V, 'check'), c], stdout=subprocess.PIPE, stderr=subprocess.PIPE, text=True, cwd=V, env=env, start_new_session=True)
                        try:
                            so, se = p.communicate(timeout=1500)
                            rc = p.returncode
                        except subprocess.TimeoutExpired:
                            import signal
                            os.killpg(p.pid, signal.SIGKILL)
                            p.communicate()
                            so, rc = '', -1
                        keys = [l.strip()[4:] for l in so.splitlines() if l.startswith('  key=')]
                        rec['checks'][c] = dict(rc=rc, keys=keys[:2])
                        if rc == 1:
                            rec['outcome'] = 'killed-by-' + c
                            break
                    done += 1
            rec['seconds'] = round(time.time() - t0, 1)
            open(os.path.join(WT, f), 'w').write(texts[f])
            if rec['outcome'] not in ('does-not-compile',):
                results.append(rec)
                json.dump(results, open(res_p, 'w'), indent=1)
            print('%-28s %-40s L%-4d %-22s | %s' % (rec['outcome'], f[-40:], ln + 1, desc[:22], new.strip()[:70]), flush=True)
    finally:
        sh(['git', '-C', '/repo', 'worktree', 'remove', '--force', WT])
    surv = [r for r in results if r['outcome'] == 'survived']
    print('total recorded %d; passed unit tests %d; survived the checks %d' % (len(results), len([r for r in results if r['outcome'] != 'killed-by-unit-tests']), len(surv)))
    return 0


if __name__ == '__main__':
    sys.exit(main())
