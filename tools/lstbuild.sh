#!/bin/bash
# usage: lstbuild.sh <name> <out> [extra sources]   (scratch helper; the checks build through vlib)
R=${VERIF_REPO:-/repo}; LIB=$(ls $R/src/avtp/*.c $R/src/avtp/*/*.c $R/src/avtp/*/*/*.c)
gcc -std=gnu99 -O1 -g -w -fsanitize=address,undefined -fno-sanitize=alignment -fno-sanitize-recover=all -fno-omit-frame-pointer -I$R/include -I$R/examples -I/verif/mon -I/verif/model $LIB /verif/mon/vpcore.c /verif/mon/platform_native.c /verif/model/vssref.c /verif/mon/lst_$1.c "${@:3}" -o $2 -lm
