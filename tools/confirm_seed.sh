#!/bin/bash
# confirm_seed.sh <deliver-dir> : independently confirm a seeded change in a scratch worktree:
# patch applies, builds, the 192 tests pass, demo fails with the patch and passes without it.
# The demo is run from the worktree root as deliver/<k>/run.sh, deliver/<k>/demo.sh, or the default gcc line.
set -u
D=$(realpath "$1"); K=$(basename $D); W=/tmp/confirm.$$
git -C /repo worktree add --detach $W HEAD -q || exit 2
trap 'git -C /repo worktree remove --force $W' EXIT
cd $W
mkdir -p deliver _build && cp -r $D deliver/$K
demo() {
  if [ -f deliver/$K/run.sh ]; then sh deliver/$K/run.sh
  elif [ -f deliver/$K/demo.sh ]; then sh deliver/$K/demo.sh
  else gcc -std=gnu99 -w -Iinclude -Iexamples deliver/$K/demo.c $(git ls-files 'src/*.c') -o deliver/$K/demo_bin -lm -lpthread && ./deliver/$K/demo_bin; fi; }
demo >/tmp/confirm_clean.$$ 2>&1; clean_rc=$?
git apply $D/patch.diff || { echo "RESULT patch-does-not-apply"; exit 1; }
cmake -G Ninja -S . -B _build -DUNIT_TESTING=ON -DCMAKE_BUILD_TYPE=RelWithDebInfo -DCMAKE_C_FLAGS=-Wno-error >/dev/null 2>&1 && cmake --build _build >/tmp/confirm_build.$$ 2>&1; build_rc=$?
ctest --test-dir _build -j8 >/tmp/confirm_ctest.$$ 2>&1; test_rc=$?
ntests=$(for t in _build/test-*; do [ -x $t ] && $t 2>&1 | grep -c "^\[       OK \]"; done | paste -sd+ | bc)
demo >/tmp/confirm_patched.$$ 2>&1; patched_rc=$?
echo "RESULT clean_demo_rc=$clean_rc build_rc=$build_rc ctest_rc=$test_rc tests_ok=$ntests patched_demo_rc=$patched_rc"
tail -3 /tmp/confirm_patched.$$
rm -f /tmp/confirm_*.$$
[ $clean_rc = 0 ] && [ $build_rc = 0 ] && [ $test_rc = 0 ] && [ "$ntests" = 192 ] && [ $patched_rc != 0 ]
