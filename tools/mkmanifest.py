#!/usr/bin/env python3
"""Regenerate /verif/MANIFEST.json from the table below and the set of implemented checks."""
import json, os, sys
VERIF = os.path.dirname(os.path.dirname(os.path.abspath(__file__)))
sys.path.insert(0, VERIF)

CHECKS = {
 'C01': dict(engine='fieldmon', design='3.1', technique='reference-model oracle + arena write monitor under ASan/UBSan (generated workload)',
   text='Every named field of all 23 formats is read through the generic and the dedicated reader on enumerated (all-zero, all-one, checkerboard, walking-1/walking-0 over every header bit, field-saturated) and seeded random buffers; each result is compared with an independent bit-by-bit model driven by a hand-written wire specification, and the whole arena around the PDU is compared before/after (read-only). The raw reader is driven over every descriptor shape (quadlet x offset 0..31 x width 0..64). Exploration: held on the executions observed, not a proof.',
   note='Trusted: spec/wire.spec (transcription of IEEE 1722-2016 figures and acf-vss.md), the 20-line bit-field model, gcc ASan/UBSan. Buffer contents are sampled; fields, paths, header bits and descriptor shapes are enumerated.'),
 'C02': dict(engine='fieldmon', design='3.2', technique='reference-model oracle + whole-arena diff after every write under ASan/UBSan',
   text='Every named field is written through the generic and dedicated writer with 14 value classes (incl. values wider than the field and 2^64-1), every single field bit, and random (buffer, value) pairs; after each call an 8 KiB arena around the PDU is compared byte for byte with the model (field bits = v mod 2^w, everything else unchanged) and the value is read back. Dedicated setters are reached through plain C conversion so a too-narrow parameter type shows as a mismatch.',
   note='Same trusted base as C01. Stray writes further than 6 KiB from the PDU would not be seen by the arena (impossible for table-driven quadlet access: quadlet index is 8 bit).'),
 'C03': dict(engine='fieldmon', design='3.3', technique='exact-extent buffers: ASan red zones + PROT_NONE guard pages with fault attribution; size facts read from the compiled headers',
   text='For every format the compiled sizeof/offsetof/*_HEADER_LEN/payload accessor are compared with the wire size of the specification; every accessor and initialiser is then executed on a buffer of exactly the published length placed in a malloc block under ASan and directly before/after an inaccessible page in gcc/clang -O0/-O2 builds; a fault or report is attributed to the current operation.',
   note='Red zones and guard pages see adjacent accesses only; far stray writes are the business of the arena diff in C02/C04. Enumeration over formats/fields/paths/placements is complete.'),
 'C04': dict(engine='fieldmon', design='3.4', technique='canonical-image oracle + arena diff on arbitrary prior contents',
   text='All current and legacy initialisers (CVF legacy init for all 256 subtypes) run on headers pre-filled with 0x00/0xFF/0xA5/random bytes inside a random arena; header must equal the canonical image of the specification, every other byte must be unchanged, a second call must change nothing.',
   note='Canonical images are hand-written in spec/wire.spec from the constants the property statement lists.'),
 'C05': dict(engine='fieldmon', design='3.5', technique='history monitor: model-based replay of generated operation sequences over several interleaved buffers',
   text='Generated episodes of 20..200 init/set/get operations through generic, dedicated and legacy entry points over 4..8 buffers of mixed formats; after every operation the touched buffer and all others are compared with the record-of-fields model; final read of every field; per-buffer history replayed alone must give identical bytes; all ordered field pairs checked for commutation and idempotence. Distinct histories are counted by hash.',
   note='Histories are sampled (seeded); pairs are enumerated. Same trusted base as C01.'),
 'C11': dict(engine='fieldmon', design='3.11', technique='invalid-argument monitor: fault capture + arena diff + return-code oracle',
   text='Every generic reader/writer is called with identifiers outside the enumeration (MAX, MAX+1, 127, 128, 255, 256+k, 512+k, 65536+k for every valid k, INT_MAX, INT_MIN, -1, random) and with a null PDU; every dedicated accessor and initialiser with a null PDU; legacy wrappers over the cross product of null/valid PDU, null/valid result and identifiers. Readers must return 0, nothing in the arena (including the result slot) may change, legacy return codes must be -EINVAL / 0, no signal may be raised.',
   note='Scope decision: field readers/writers, initialisers and legacy wrappers only (message builders and the VSS codec have no null contract).'),
 'C12': dict(engine='fieldmon', design='3.12', technique='differential monitor legacy vs current API on identical buffers, plus model oracle',
   text='For the five legacy formats every field identifier and alias macro is exercised: legacy get vs current get, legacy set vs current set (bytes identical and equal to the model), legacy init vs current init, alias macros evaluated in a translation unit that includes only the legacy header, packed legacy struct sizes/offsets.',
   note='Each binding translation unit includes only the one public header, as a legacy user would.'),
 'C17': dict(engine='fieldmon', design='3.17', technique='paired-view differential monitor over the sharing relation',
   text='All 153 (format.field = format.field) pairs of the sharing relation are read and written through both views on identical buffers with all four path combinations; reads must agree, writes must leave identical bytes, write-via-A/read-via-B must return the value.',
   note='The sharing relation is stated in spec/wire.spec and checked for positional consistency when loaded.'),
}

NOT_YET = {}


def main():
    import check  # noqa: F401  (registry lives in the ./check script's modules)


if __name__ == '__main__':
    import importlib.util, importlib.machinery
    loader = importlib.machinery.SourceFileLoader('checkmod', os.path.join(VERIF, 'check'))
    spec = importlib.util.spec_from_loader('checkmod', loader)
    mod = importlib.util.module_from_spec(spec)
    loader.exec_module(mod)
    reg = mod.registry()
    props = [json.loads(l)['id'] for l in open(os.path.join(VERIF, 'properties.jsonl'))]
    extra = {}
    ep = os.path.join(VERIF, 'tools', 'manifest_extra.json')
    if os.path.exists(ep):
        extra = json.load(open(ep))
    checks, na = [], []
    table = dict(CHECKS)
    table.update(extra.get('checks', {}))
    SUFFIX = (' A slice of the same workload is repeated in further builds of the same sources - strict -std=c99, -fshort-enums, -DNDEBUG, '
              '-funsigned-char, without the compiler\'s byte-order macros, a freestanding 32-bit (ILP32) executable and clang MemorySanitizer '
              '(whichever apply to the property; listed in the evidence rule) - and every binding thunk counts the evaluations of each '
              'argument of the API call it makes (a function evaluates each exactly once).  A coverage-guided stage (clang libFuzzer + ASan/UBSan, mon/fuzz_*.c) '
              'runs the same model oracle on inputs derived from the comparisons the library executes (magic values, content-gated shortcuts).')
    for p in props:
        if p in reg and p in table:
            t = dict(table[p])
            if t['engine'] in ('fieldmon', 'vssmon', 'canmon') and 'ILP32' not in t['text']:
                t['text'] = t['text'].rstrip() + SUFFIX
            if t['engine'] in ('fieldmon', 'vssmon', 'canmon') and 'libFuzzer' not in t['technique']:
                t['technique'] = t['technique'] + '; the same oracle under a coverage-guided workload (clang libFuzzer) and in further build configurations (MSan, NDEBUG, unsigned char, ILP32, ...)'
            checks.append(dict(property_id=p, quick_cmd='./check %s --tier quick' % p, thorough_cmd='./check %s --tier thorough' % p,
                               evidence_file='evidence/%s.json' % p, replay_cmd_template='./check %s --replay {path}' % p,
                               engine=t['engine'], level_claimed=dict(category=t.get('category', 'exploration'), text=t['text'],
                                                                      design_ref='DESIGN.md section ' + t['design']),
                               level_note=t['note'], technique=t['technique']))
        else:
            na.append(dict(property_id=p, reason=extra.get('not_applicable', {}).get(p, 'check not built yet in this round (runtime monitoring does apply; see DESIGN.md section 3)')))
    engines = {}
    for c in checks:
        engines.setdefault(c['engine'], []).append(c['property_id'])
    man = dict(version=1,
               setup_cmd='python3 spec/spec.py >/dev/null && python3 -c "import json,sys; json.load(open(\'MANIFEST.json\'))"',
               hooks=dict(guard='COVESA_OPEN1722_VERIF',
                          enable='monitor builds pass -DCOVESA_OPEN1722_VERIF; no source hook is needed (examples are reached by #include with macro interposition, see DESIGN.md 2.9)',
                          baseline_off_cmd='cmake -G Ninja -S /repo -B /repo/_build -DUNIT_TESTING=ON -DCMAKE_BUILD_TYPE=RelWithDebInfo -DCMAKE_C_FLAGS=-Wno-error >/dev/null && cmake --build /repo/_build >/dev/null && ctest --test-dir /repo/_build -j8 --timeout 900',
                          source_commits=[], add_only=True),
               engines=[dict(name=k, path=extra.get('engine_paths', {}).get(k, 'mon/%s.c' % k), serves_properties=v,
                             kind_free_text=extra.get('engine_kinds', {}).get(k, 'runtime monitor')) for k, v in sorted(engines.items())],
               checks=checks,
               notes='All checks rebuild the library sources from /repo\'s working tree into /verif/.work/<id>.<pid>/ (removed on exit). '
                     'Exit codes: 0 held (KNOWN-FINDING lines possible), 1 unlisted violation (VIOLATION lines), 2 harness failure/inconclusive. '
                     'known_findings.json lists open findings and fixed defects.',
               not_applicable=na)
    json.dump(man, open(os.path.join(VERIF, 'MANIFEST.json'), 'w'), indent=1)
    print('MANIFEST.json: %d checks, %d not_applicable' % (len(checks), len(na)))
