#!/usr/bin/env python3
"""beify.py - big-endian host emulation by LLVM-IR rewriting.

  beify.py cc  <out.o> <src.c> [-I dir ...] [-D def ...]   compile one C source for the emulated big-endian world
  beify.py rewrite <in.ll> <out.ll>                         rewrite only

Pipeline: clang --target=powerpc64-unknown-linux-gnu -O0 (front-end of a big-endian LP64 host:
__BYTE_ORDER__ == __ORDER_BIG_ENDIAN__, same struct layout as x86-64 for the types used) emits
textual IR; this script retargets the IR to x86-64 and wraps every load/store of i16/i32/i64/
float/double in llvm.bswap, and byte-swaps integer constants in global initialisers, so that all
memory of the emulated world holds big-endian images exactly as on real hardware while register
values stay values.  i8, pointers and mem* intrinsics are untouched.  Anything the rewriter does
not understand (vectors, va_arg, atomics, inline asm, FP constants in initialisers, fp128) makes
it fail loudly (exit 2) rather than produce an unfaithful program.
"""
import os, re, subprocess, sys

HERE = os.path.dirname(os.path.abspath(__file__))
X86_DL = 'e-m:e-p270:32:32-p271:32:32-p272:64:64-i64:64-f80:128-n8:16:32:64-S128'
X86_TRIPLE = 'x86_64-unknown-linux-gnu'
INT = {'i16': 16, 'i32': 32, 'i64': 64}
FP = {'float': 'i32', 'double': 'i64'}


class Refuse(Exception):
    pass


def swap_const(bits, v):
    v &= (1 << bits) - 1
    b = v.to_bytes(bits // 8, 'big')
    r = int.from_bytes(b, 'little')
    if r >= 1 << (bits - 1):
        r -= 1 << bits
    return r


GEP_RE = re.compile(r'getelementptr(?: inbounds)? \((?:[^()]|\([^()]*\))*\)')


def rewrite_global(line):
    if re.search(r'\b(float|double|x86_fp80|ppc_fp128|fp128) (?:-?\d|0x)', line):
        raise Refuse('floating-point constant in a global initialiser: ' + line[:120])
    if re.search(r'<\d+ x ', line):
        raise Refuse('vector type in a global: ' + line[:120])
    # protect constant GEP expressions (their indices are not data)
    keep = []

    def prot(m):
        keep.append(m.group(0))
        return '\x00%d\x00' % (len(keep) - 1)
    head, sep, init = line.partition(' = ')
    body = GEP_RE.sub(prot, init)
    body = re.sub(r'\bptrtoint\b', lambda m: (_ for _ in ()).throw(Refuse('ptrtoint in initialiser')), body)

    def sw(m):
        return '%s %d' % (m.group(1), swap_const(INT[m.group(1)], int(m.group(2))))
    # do not touch "align N" or array dimensions; only typed integer constants "iNN <number>"
    body = re.sub(r'\b(i16|i32|i64) (-?\d+)\b', sw, body)
    body = re.sub('\x00(\\d+)\x00', lambda m: keep[int(m.group(1))], body)
    return head + sep + body


LOAD_RE = re.compile(r'^(\s*)(%[\w.$-]+) = load (volatile )?(i16|i32|i64|float|double), (i16|i32|i64|float|double)\* ([^,]+)(, align \d+)?(.*)$')
STORE_RE = re.compile(r'^(\s*)store (volatile )?(i16|i32|i64|float|double) (.+), (i16|i32|i64|float|double)\* ([^,]+?)(, align \d+)?((?:, !.*)?)$')


def split_top(sx):
    """split at commas that are not nested in () [] {} <>"""
    parts, depth, cur = [], 0, ''
    for ch in sx:
        if ch in '([{<':
            depth += 1
        elif ch in ')]}>':
            depth -= 1
        if ch == ',' and depth == 0:
            parts.append(cur)
            cur = ''
        else:
            cur += ch
    parts.append(cur)
    return parts


def rewrite(text):
    out = []
    n = 0
    used = set()
    in_func = False
    for line in text.split('\n'):
        if line.startswith('target datalayout'):
            if not line.startswith('target datalayout = "E'):
                raise Refuse('input IR is not big-endian: ' + line)
            out.append('target datalayout = "%s"' % X86_DL)
            continue
        if line.startswith('target triple'):
            out.append('target triple = "%s"' % X86_TRIPLE)
            continue
        if line.startswith('attributes #'):
            line = re.sub(r' "target-cpu"="[^"]*"', '', line)
            line = re.sub(r' "target-features"="[^"]*"', '', line)
            line = re.sub(r' "tune-cpu"="[^"]*"', '', line)
            out.append(line)
            continue
        if line.startswith('define '):
            in_func = True
        elif line.startswith('}'):
            in_func = False
        if not in_func:
            if line.startswith('@') and re.search(r'\b(global|constant)\b', line):
                line = rewrite_global(line)
            out.append(line)
            continue
        for bad in (' va_arg ', 'llvm.va_start', ' atomicrmw ', ' cmpxchg ', ' asm ', 'ppc_fp128', ' fp128', 'x86_fp80', ' load atomic', ' store atomic'):
            if bad in line:
                raise Refuse('unsupported construct %r: %s' % (bad.strip(), line.strip()[:120]))
        if re.search(r'(load|store) (volatile )?<\d+ x ', line):
            raise Refuse('vector memory access: ' + line.strip()[:120])
        if re.search(r'(load|store) (volatile )?(i128|i24|i48|i40|i56)\b', line):
            raise Refuse('odd-width integer memory access: ' + line.strip()[:120])
        m = LOAD_RE.match(line)
        if m:
            ind, res, vol, ty, pty, ptr, al, rest = m.groups()
            vol = vol or ''
            al = al or ''
            n += 1
            if ty in INT:
                out.append('%s%%vpbe%d = load %s%s, %s* %s%s%s' % (ind, n, vol, ty, ty, ptr, al, rest))
                out.append('%s%s = call %s @llvm.bswap.%s(%s %%vpbe%d)' % (ind, res, ty, ty, ty, n))
                used.add(ty)
            else:
                it = FP[ty]
                out.append('%s%%vpc%d = bitcast %s* %s to %s*' % (ind, n, ty, ptr, it))
                out.append('%s%%vpbe%d = load %s%s, %s* %%vpc%d%s%s' % (ind, n, vol, it, it, n, al, rest))
                out.append('%s%%vpsw%d = call %s @llvm.bswap.%s(%s %%vpbe%d)' % (ind, n, it, it, it, n))
                out.append('%s%s = bitcast %s %%vpsw%d to %s' % (ind, res, it, n, ty))
                used.add(it)
            continue
        m = STORE_RE.match(line)
        if m:
            ind, vol, ty, val, pty, ptr, al, rest = m.groups()
            vol = vol or ''
            al = al or ''
            n += 1
            if ty in INT:
                out.append('%s%%vpst%d = call %s @llvm.bswap.%s(%s %s)' % (ind, n, ty, ty, ty, val))
                out.append('%sstore %s%s %%vpst%d, %s* %s%s%s' % (ind, vol, ty, n, ty, ptr, al, rest))
                used.add(ty)
            else:
                it = FP[ty]
                out.append('%s%%vpsi%d = bitcast %s %s to %s' % (ind, n, ty, val, it))
                out.append('%s%%vpst%d = call %s @llvm.bswap.%s(%s %%vpsi%d)' % (ind, n, it, it, it, n))
                out.append('%s%%vpsp%d = bitcast %s* %s to %s*' % (ind, n, ty, ptr, it))
                out.append('%sstore %s%s %%vpst%d, %s* %%vpsp%d%s%s' % (ind, vol, it, n, it, n, al, rest))
                used.add(it)
            continue
        mm = re.match(r'^\s*(?:%[\w.$-]+ = )?(load|store) (?:volatile )?(.*)$', line)
        if mm:
            kind, rest = mm.groups()
            parts = split_top(rest)
            if kind == 'load':
                ty = parts[0].strip()
            else:
                pt = parts[1].strip().rsplit(' ', 1)[0].strip()       # "<ty>* %p" -> "<ty>*"
                ty = pt[:-1] if pt.endswith('*') else pt
            if ty.endswith('*') or ty in ('i8', 'i1'):
                pass                                                   # pointers and bytes: untouched
            else:
                raise Refuse('memory access of type %r the rewriter does not handle: %s' % (ty, line.strip()[:160]))
        out.append(line)
    text = '\n'.join(out)
    for ty in sorted(used):
        if 'declare %s @llvm.bswap.%s' % (ty, ty) not in text:
            text += '\ndeclare %s @llvm.bswap.%s(%s)\n' % (ty, ty, ty)
    return text, n


def resource_dir():
    return subprocess.run(['clang', '-print-resource-dir'], capture_output=True, text=True).stdout.strip()


def cc(out_o, src, extra):
    ll = out_o[:-2] + '.be.ll'
    ll2 = out_o[:-2] + '.x86.ll'
    # gcc on a big-endian host also predefines __FLOAT_WORD_ORDER__ (clang does not): code that consults it must see what gcc would say
    cmd = ['clang', '--target=powerpc64-unknown-linux-gnu', '-O0', '-std=gnu99', '-w', '-ffreestanding', '-nostdinc', '-D__FLOAT_WORD_ORDER__=__ORDER_BIG_ENDIAN__',
           '-isystem', os.path.join(resource_dir(), 'include'), '-isystem', os.path.join(HERE, 'stubs'),
           '-fno-vectorize', '-fno-slp-vectorize', '-S', '-emit-llvm', src, '-o', ll] + list(extra)
    p = subprocess.run(cmd, capture_output=True, text=True)
    if p.returncode != 0:
        sys.stderr.write('beify: front-end failed: %s\n%s\n' % (' '.join(cmd), p.stderr[-3000:]))
        return 2
    try:
        text, n = rewrite(open(ll).read())
    except Refuse as e:
        sys.stderr.write('beify: REFUSED %s: %s\n' % (src, e))
        return 2
    open(ll2, 'w').write(text)
    p = subprocess.run(['clang', '-O0', '-g0', '-w', '-c', '-x', 'ir', ll2, '-o', out_o], capture_output=True, text=True)
    if p.returncode != 0:
        sys.stderr.write('beify: back-end failed for %s\n%s\n' % (src, p.stderr[-3000:]))
        return 2
    return 0


if __name__ == '__main__':
    if sys.argv[1] == 'cc':
        sys.exit(cc(sys.argv[2], sys.argv[3], sys.argv[4:]))
    elif sys.argv[1] == 'rewrite':
        try:
            t, n = rewrite(open(sys.argv[2]).read())
        except Refuse as e:
            sys.stderr.write('beify: REFUSED: %s\n' % e)
            sys.exit(2)
        open(sys.argv[3], 'w').write(t)
        print('rewrote %d memory accesses' % n)
