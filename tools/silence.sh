#!/bin/bash
# silence.sh <tier> <seed>... : run every check on the unchanged tree for several seeds; print one line per run
tier=$1; shift
for s in "$@"; do for p in C01 C02 C03 C04 C05 C06 C07 C08 C09 C10 C11 C12 C13 C14 C15 C16 C17 C18 C19 C20; do
  out=$(VERIF_SEED=$s ./check $p --tier $tier 2>&1); rc=$?
  echo "seed=$s $p rc=$rc $(echo "$out" | grep -c '^VIOLATION') viol | $(echo "$out" | tail -1)"
  [ $rc != 0 ] && echo "$out" | grep -v KNOWN | head -20
done; done
# optional build configurations must not be skipped on the unchanged tree
python3 - <<'PY'
import json, glob
for f in sorted(glob.glob('/verif/evidence/C*.json')):
    n = json.load(open(f)).get('coverage', {}).get('notes') or []
    if any('skipped' in x for x in n):
        print('SKIPPED-CONFIGURATION', f[-8:-5], [x[:160] for x in n if 'skipped' in x])
PY
