/* freestanding stub for the big-endian front-end: byte-wise libc functions only */
#ifndef VP_STUB_STRING_H
#define VP_STUB_STRING_H
#include <stddef.h>
void* memcpy(void* dst, const void* src, size_t n);
void* memmove(void* dst, const void* src, size_t n);
void* memset(void* dst, int c, size_t n);
int   memcmp(const void* a, const void* b, size_t n);
size_t strlen(const char* s);
int   strcmp(const char* a, const char* b);
int   strncmp(const char* a, const char* b, size_t n);
char* strncpy(char* d, const char* s, size_t n);
#endif
