#ifndef VP_STUB_ASSERT_H
#define VP_STUB_ASSERT_H
#define assert(x) ((void)0)
#endif
