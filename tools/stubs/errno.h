#ifndef VP_STUB_ERRNO_H
#define VP_STUB_ERRNO_H
#define EINVAL 22
#define ERANGE 34
#ifdef VP_ILP32
extern int errno;                      /* freestanding 32-bit build: defined in mon/platform_ilp32.c */
#else
extern int* __errno_location(void);    /* big-endian emulation: the object is linked against the native C library */
#define errno (*__errno_location())
#endif
#endif
