/* freestanding stand-in for glibc's <endian.h>, derived from the compiler's target macros */
#ifndef VP_STUB_ENDIAN_H
#define VP_STUB_ENDIAN_H
#define __LITTLE_ENDIAN 1234
#define __BIG_ENDIAN 4321
#define __PDP_ENDIAN 3412
#if __BYTE_ORDER__ == __ORDER_BIG_ENDIAN__
#define __BYTE_ORDER __BIG_ENDIAN
#else
#define __BYTE_ORDER __LITTLE_ENDIAN
#endif
#if !defined(__STRICT_ANSI__)
#define LITTLE_ENDIAN __LITTLE_ENDIAN
#define BIG_ENDIAN __BIG_ENDIAN
#define PDP_ENDIAN __PDP_ENDIAN
#define BYTE_ORDER __BYTE_ORDER
#endif
#endif
