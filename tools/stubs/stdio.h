#ifndef VP_STUB_STDIO_H
#define VP_STUB_STDIO_H
#include <stddef.h>
#endif
