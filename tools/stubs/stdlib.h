#ifndef VP_STUB_STDLIB_H
#define VP_STUB_STDLIB_H
void abort(void);
#endif
