"""Parser for spec/wire.spec (the hand-written wire-format specification).

Returns plain dictionaries; positions are derived by summing widths so a row cannot drift.
"""
import os, re, sys

HERE = os.path.dirname(os.path.abspath(__file__))


class SpecError(Exception):
    pass


def camel(name):
    return ''.join(p[:1].upper() + p[1:] for p in name.split('_'))


def _kv(tokens):
    d = {}
    rest = []
    for t in tokens:
        if '=' in t:
            k, v = t.split('=', 1)
            d[k] = v
        else:
            rest.append(t)
    return d, rest


def load(path=None):
    path = path or os.path.join(HERE, 'wire.spec')
    formats = []
    stars = []
    cliques = []
    cur = None
    last_kw = None
    for ln, raw in enumerate(open(path), 1):
        line = raw.split('#', 1)[0].rstrip()
        if not line.strip():
            continue
        toks = line.split()
        kw = toks[0]
        indented = raw[0] in ' \t'
        if not indented:
            last_kw = None
            if kw == 'format':
                d, rest = _kv(toks[2:])
                cur = dict(id=toks[1], header=d['header'], type=d['type'], lenmacro=d['lenmacro'],
                           bytes=int(d['bytes']), layout=[], zero=[], aliases=[], lstructs=[],
                           legacy=None, aliasmax=None, api={}, prefix={})
                formats.append(cur)
            elif kw == 'star':
                hub = toks[1]
                assert toks[2] == ':'
                d, rest = _kv(toks[3:])
                m = {}
                if 'map' in d:
                    for pair in d['map'].split(','):
                        a, b = pair.split(':')
                        m[a] = b
                stars.append(dict(hub=hub, others=rest, map=m))
            elif kw == 'clique':
                cliques.append(toks[1:])
            else:
                raise SpecError('%s:%d: unknown top-level keyword %s' % (path, ln, kw))
            continue
        # indented: belongs to current format
        if kw in ('api', 'prefix', 'layout', 'zero', 'legacy', 'lstruct', 'alias', 'aliasmax'):
            last_kw = kw
            body = toks[1:]
        else:
            if last_kw not in ('layout', 'alias'):
                raise SpecError('%s:%d: unexpected continuation' % (path, ln))
            body = toks
            kw = last_kw
        if kw == 'api':
            d, _ = _kv(body)
            g = d['generic'].split('/')
            cur['api'] = dict(gget=g[0], gset=g[1], init=d.get('init'), payload=d.get('payload'), image=None)
            # image may contain spaces: re-join everything after image=
            if 'image=' in line:
                cur['api']['image'] = bytes.fromhex(line.split('image=', 1)[1].replace(' ', ''))
        elif kw == 'prefix':
            d, _ = _kv(body)
            cur['prefix'] = d
        elif kw == 'layout':
            for t in body:
                if t == '|':
                    continue
                name, rest = t.split(':', 1)
                opts = rest.split(',')
                width = int(opts[0])
                o = dict(name=name, width=width, noacc=False, get=None, set=None, enum=None)
                for op in opts[1:]:
                    if op == 'noacc':
                        o['noacc'] = True
                    elif '=' in op:
                        k, v = op.split('=', 1)
                        o[k] = v
                    else:
                        raise SpecError('%s:%d: bad option %s' % (path, ln, op))
                cur['layout'].append(o)
        elif kw == 'zero':
            cur['zero'] += body
        elif kw == 'legacy':
            d, _ = _kv(body)
            cur['legacy'] = dict(get=d['get'], set=d['set'], init=d.get('init'),
                                 valbytes=int(d['valbytes']), initarg=d.get('initarg'))
        elif kw == 'lstruct':
            d, rest = _kv(body)
            pm, po = d['payload'].split('@')
            cur['lstructs'].append(dict(name=rest[0], size=int(d['size']), payload=pm, payload_off=int(po)))
        elif kw == 'alias':
            for t in body:
                a, f = t.split('=')
                cur['aliases'].append((a, f))
        elif kw == 'aliasmax':
            cur['aliasmax'] = body[0]

    # derive positions and names
    byid = {}
    for f in formats:
        pos = 0
        fields = []
        pre = f['prefix']
        for o in f['layout']:
            if o['name'] != '-':
                fld = dict(name=o['name'], pos=pos, width=o['width'],
                           enum=o['enum'] or (pre['enum'] + o['name'].upper()),
                           dget=None, dset=None)
                if not o['noacc'] and pre.get('get', '-') != '-':
                    fld['dget'] = o['get'] or (pre['get'] + camel(o['name']))
                    fld['dset'] = o['set'] or (pre['set'] + camel(o['name']))
                fields.append(fld)
            pos += o['width']
        if pos != f['bytes'] * 8:
            raise SpecError('format %s: layout covers %d bits, header is %d bytes' % (f['id'], pos, f['bytes']))
        for z in f['zero']:
            fields.append(dict(name=z.lower(), pos=0, width=0, enum=z, dget=None, dset=None))
        f['fields'] = fields
        names = [x['name'] for x in fields]
        if len(set(names)) != len(names):
            raise SpecError('format %s: duplicate field names' % f['id'])
        if f['api'].get('image') is not None and len(f['api']['image']) != f['bytes']:
            raise SpecError('format %s: init image has %d bytes, header %d' % (f['id'], len(f['api']['image']), f['bytes']))
        for a, fn in f['aliases']:
            if fn not in names:
                raise SpecError('format %s: alias %s names unknown field %s' % (f['id'], a, fn))
        byid[f['id']] = f

    # sharing relation (C17)
    shares = []  # (fmtA, fieldA, fmtB, fieldB)

    def pair(fa, fb, m, strict):
        A, B = byid[fa], byid[fb]
        bn = {x['name']: x for x in B['fields']}
        for x in A['fields']:
            if x['width'] == 0:
                continue
            y = bn.get(m.get(x['name'], x['name']))
            if y is None:
                continue
            if (x['pos'], x['width']) != (y['pos'], y['width']):
                if x['name'].startswith('reserved'):
                    continue
                raise SpecError('share %s.%s vs %s.%s: different bits' % (fa, x['name'], fb, y['name']))
            shares.append((fa, x['name'], fb, y['name']))

    for s in stars:
        for o in s['others']:
            pair(s['hub'], o, s['map'], True)
    for c in cliques:
        for i in range(len(c)):
            for j in range(i + 1, len(c)):
                pair(c[i], c[j], {}, True)
    return dict(formats=formats, byid=byid, shares=shares)


if __name__ == '__main__':
    sp = load()
    nf = 0
    for f in sp['formats']:
        nf += len(f['fields'])
        print('%-12s %3d bytes %2d fields  %s' % (f['id'], f['bytes'], len(f['fields']),
              ' '.join('%s@%d:%d' % (x['name'], x['pos'], x['width']) for x in f['fields'])))
    print(len(sp['formats']), 'formats', nf, 'fields', len(sp['shares']), 'share pairs')
