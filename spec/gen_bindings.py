#!/usr/bin/env python3
"""Generate the binding translation units from spec/wire.spec.

usage: gen_bindings.py <outdir>
Writes bind_<FORMAT>.c (one per public header; each includes only that header, as a user
would) and bind_all.c (format array + sharing relation).  Names are bound at compile time:
a renamed or removed API makes the harness fail to build (reported as harness failure).
"""
import os, sys
sys.path.insert(0, os.path.dirname(os.path.abspath(__file__)))
import spec as S

COMPAT = {
    # lets the harness build against trees that predate the Sensor-brief rename (for
    # validating the monitors on the original commit); a no-op on the current tree
    'SENSORBRIEF': '#ifndef AVTP_SENSOR_BRIEF_HEADER_LEN\n#define AVTP_SENSOR_BRIEF_HEADER_LEN AVTP_SENSOR_HEADER_LEN\n'
                   '#define AVTP_SENSOR_BRIEF_FIELD_MAX AVTP_SENSOR_FIELD_MAX\n#endif\n',
}


def cstr(s):
    return '"' + s + '"' if s is not None else '0'


def gen_format(f):
    o = []
    T = f['type']
    o.append('/* generated from spec/wire.spec - do not edit */')
    o.append('#include <stddef.h>\n#include <stdint.h>\n#include <string.h>')
    o.append('#include "vp_bind.h"   /* first: a header that leaks a #pragma must not change the monitor\'s own structs */')
    o.append('#include "%s"' % f['header'])
    o.append(COMPAT.get(f['id'], ''))
    fid = f['id']
    # every argument of every call below is wrapped in AE(): a function call evaluates each argument exactly once, so a
    # function-like macro shadowing an API name that evaluates one twice (or not at all) is reported by vp_argeval_report()
    o.append('extern void vp_argeval_report(const char* fn, unsigned got, unsigned expect);')
    o.append('#define AE(x) (ae++, (x))')
    o.append('#define AE_END(fn, n) do { if (ae != (n)) vp_argeval_report(fn, ae, n); } while (0)')
    for x in f['fields']:
        if x['dget']:
            o.append('static uint64_t dget_%s(void* p) { unsigned ae = 0; uint64_t r = (uint64_t)%s(AE((%s*)p)); AE_END("%s", 1); return r; }' % (x['name'], x['dget'], T, x['dget']))
            o.append('static void dset_%s(void* p, uint64_t v) { unsigned ae = 0; %s(AE((%s*)p), AE(v)); AE_END("%s", 2); }' % (x['name'], x['dset'], T, x['dset']))
    api = f['api']
    o.append('static uint64_t gget(void* p, uint32_t id) { unsigned ae = 0; uint64_t r = %s(AE((%s*)p), AE(id)); AE_END("%s", 2); return r; }' % (api['gget'], T, api['gget']))
    o.append('static void gset(void* p, uint32_t id, uint64_t v) { unsigned ae = 0; %s(AE((%s*)p), AE(id), AE(v)); AE_END("%s", 3); }' % (api['gset'], T, api['gset']))
    if api.get('init'):
        o.append('static void init(void* p) { unsigned ae = 0; %s(AE((%s*)p)); AE_END("%s", 1); }' % (api['init'], T, api['init']))
    if api.get('payload'):
        o.append('static uint8_t* payload_ptr(void* p) { unsigned ae = 0; uint8_t* r = %s(AE((%s*)p)); AE_END("%s", 1); return r; }' % (api['payload'], T, api['payload']))
    if api.get('image') is not None:
        o.append('static const uint8_t image[] = { %s };' % ', '.join('0x%02x' % b for b in api['image']))
    lg = f['legacy']
    if lg:
        o.append('static int lget(void* p, uint32_t id, void* val) { unsigned ae = 0; int r = %s(AE(p), AE(id), AE(val)); AE_END("%s", 3); return r; }' % (lg['get'], lg['get']))
        if lg['valbytes'] == 4:
            o.append('static int lset(void* p, uint32_t id, uint64_t v) { unsigned ae = 0; int r = %s(AE(p), AE(id), AE((uint32_t)v)); AE_END("%s", 3); return r; }' % (lg['set'], lg['set']))
        else:
            o.append('static int lset(void* p, uint32_t id, uint64_t v) { unsigned ae = 0; int r = %s(AE(p), AE(id), AE(v)); AE_END("%s", 3); return r; }' % (lg['set'], lg['set']))
        if lg['init']:
            if lg['initarg']:
                o.append('static int linit(void* p, uint32_t arg) { unsigned ae = 0; int r = %s(AE(p), AE((uint8_t)arg)); AE_END("%s", 2); return r; }' % (lg['init'], lg['init']))
            else:
                o.append('static int linit(void* p, uint32_t arg) { unsigned ae = 0; (void)arg; int r = %s(AE(p)); AE_END("%s", 1); return r; }' % (lg['init'], lg['init']))
    # direct-call sequence
    steps = []   # (field index, path, get expr, set stmt)
    for i, x in enumerate(f['fields']):
        steps.append((i, 0, '%s(p, %s)' % (api['gget'], x['enum']), '%s(p, %s, vals[%%d]);' % (api['gset'], x['enum'])))
        if x['dget']:
            steps.append((i, 1, '(uint64_t)%s(p)' % x['dget'], '%s(p, vals[%%d]);' % x['dset']))
        if lg and lg['valbytes'] == 8:
            steps.append((i, 2, 'LGET(%s, %s)' % (lg['get'], x['enum']), '%s(p, %s, vals[%%d]);' % (lg['set'], x['enum'])))
    o.append('#define LGET(fn, id) (fn(p, id, &lv) == 0 ? lv : 0xdeadbeefdeadbeefull)')
    o.append('static uint32_t seq(void* vp, const uint8_t* alt, const uint64_t* vals, uint64_t* out)')
    o.append('{')
    o.append('    %s* p = (%s*)vp; uint32_t k = 0; uint64_t lv = 0; (void)lv;' % (T, T))
    for n, (i, path, g, st) in enumerate(steps):
        o.append('    out[k++] = %s; %s out[k++] = %s; memcpy(p, alt, %d); out[k++] = %s;' % (g, st % n, g, f['bytes'], g))
    o.append('    return k;')
    o.append('}')
    o.append('static const uint16_t seq_field[] = { %s };' % ', '.join(str(i) for i, _, _, _ in steps))
    o.append('static const uint8_t seq_path[] = { %s };' % ', '.join(str(p) for _, p, _, _ in steps))
    o.append('\nstatic const vp_field_t fields[] = {')
    for x in f['fields']:
        o.append('    { %s, %s, %d, %d, %s, %s, %s, %s, %s },' % (
            cstr(x['name']), cstr(x['enum']), x['pos'], x['width'], x['enum'],
            'dget_' + x['name'] if x['dget'] else '0', 'dset_' + x['name'] if x['dget'] else '0',
            cstr(x['dget']), cstr(x['dset'])))
    o.append('};')
    if f['aliases']:
        o.append('static const vp_alias_t aliases[] = {')
        for a, fn in f['aliases']:
            o.append('    { "%s", %s, "%s" },' % (a, a, fn))
        o.append('};')
    if f['lstructs']:
        o.append('static const vp_lstruct_t lstructs[] = {')
        for l in f['lstructs']:
            o.append('    { "%s", sizeof(struct %s), %d, offsetof(struct %s, %s), %d },' % (
                l['name'], l['name'], l['size'], l['name'], l['payload'], l['payload_off']))
        o.append('};')
    argfield = 0
    if lg and lg['initarg']:
        argfield = 1 + [x['name'] for x in f['fields']].index(lg['initarg'])
    o.append('\nconst vp_format_t vp_fmt_%s = {' % fid)
    o.append('    "%s", "%s", "%s", "%s",' % (fid, f['header'], T, f['lenmacro']))
    o.append('    %d, sizeof(%s), offsetof(%s, payload), %s,' % (f['bytes'], T, T, f['lenmacro']))
    o.append('    sizeof(fields)/sizeof(fields[0]), fields, %s,' % f['prefix']['max'])
    o.append('    gget, gset, %s, %s,' % ('init' if api.get('init') else '0', 'image' if api.get('image') is not None else '0'))
    o.append('    %s, %s, %s, %d, %d,' % ('lget' if lg else '0', 'lset' if lg else '0',
                                         'linit' if lg and lg['init'] else '0', lg['valbytes'] if lg else 0, argfield))
    o.append('    %s, %s,' % ('sizeof(aliases)/sizeof(aliases[0])' if f['aliases'] else '0', 'aliases' if f['aliases'] else '0'))
    o.append('    %s, %s,' % ('1' if f['aliasmax'] else '0', f['aliasmax'] or '0'))
    o.append('    %s, %s,' % ('sizeof(lstructs)/sizeof(lstructs[0])' if f['lstructs'] else '0', 'lstructs' if f['lstructs'] else '0'))
    o.append('    %s,' % ('payload_ptr' if api.get('payload') else '0'))
    o.append('    seq, %d, seq_field, seq_path,' % len(steps))
    o.append('    "%s", "%s", %s' % (api['gget'], api['gset'], cstr(api.get('init'))))
    o.append('};')
    return '\n'.join(o) + '\n'


def main():
    out = sys.argv[1]
    os.makedirs(out, exist_ok=True)
    sp = S.load()
    ids = [f['id'] for f in sp['formats']]
    for f in sp['formats']:
        open(os.path.join(out, 'bind_%s.c' % f['id']), 'w').write(gen_format(f))
    o = ['/* generated */', '#include <string.h>', '#include "vp_bind.h"']
    for i in ids:
        o.append('extern const vp_format_t vp_fmt_%s;' % i)
    o.append('const vp_format_t* const vp_formats[] = { %s };' % ', '.join('&vp_fmt_' + i for i in ids))
    o.append('const uint32_t vp_nformats = %d;' % len(ids))
    o.append('const vp_share_t vp_shares[] = {')
    for fa, na, fb, nb in sp['shares']:
        A, B = sp['byid'][fa], sp['byid'][fb]
        ia = [x['name'] for x in A['fields']].index(na)
        ib = [x['name'] for x in B['fields']].index(nb)
        o.append('    { %d, %d, %d, %d },  /* %s.%s = %s.%s */' % (ids.index(fa), ia, ids.index(fb), ib, fa, na, fb, nb))
    o.append('};')
    o.append('const uint32_t vp_nshares = %d;' % len(sp['shares']))
    o.append('const vp_format_t* vp_format_by_id(const char* id) { for (uint32_t i = 0; i < vp_nformats; i++) '
             'if (strcmp(vp_formats[i]->id, id) == 0) return vp_formats[i]; return 0; }')
    open(os.path.join(out, 'bind_all.c'), 'w').write('\n'.join(o) + '\n')
    print(' '.join('bind_%s.c' % i for i in ids), 'bind_all.c')


if __name__ == '__main__':
    main()
