"""Checks decided by the vssmon / canmon engines: C06 C07 C08 C09 C10."""
import os, time
import vlib
import vfuzz
from vlib import VERIF

ASSUME = [
    'model/vssref.c transcribes examples/acf-vss/protocol_description/acf-vss.md correctly (big-endian integers, IEEE-754 bit patterns, 16-bit byte-length prefixes)',
    'gcc 12 AddressSanitizer red zones around exact-extent malloc blocks (sources, destinations, messages); arena write monitor for message and result objects',
    'values, paths and lengths are generated from a PRNG seeded by VERIF_SEED; datatype codes, address modes, length classes and length residues are enumerated',
    'interop paths longer than 65533 bytes are not generated: their on-wire size exceeds the 16-bit path-size query and they cannot occur in an ACF message (<= 2044 bytes)',
]


def vss_sources():
    return vlib.lib_sources() + vlib.core_sources() + [os.path.join(VERIF, 'model', 'vssref.c'), os.path.join(VERIF, 'mon', 'vssmon.c')]


def can_sources():
    return vlib.lib_sources() + vlib.core_sources() + [os.path.join(VERIF, 'mon', 'canmon.c')]


_vb = {}


def build_vssmon(work, variant='asan'):
    key = (work.dir, variant)
    if key not in _vb:
        _vb[key] = _build_vssmon(work, variant)
    return _vb[key]


def _build_vssmon(work, variant='asan'):
    if variant == 'asan':
        return vlib.compile_many(work, 'vssmon_asan', vss_sources(), vlib.ASAN_FLAGS)
    return vlib.compile_many(work, 'vssmon_plain', vss_sources(), ['-O0', '-g'])


VARIANT_FLAGS = {'ndebug': ['-O2', '-g', '-DNDEBUG'],            # CMAKE_BUILD_TYPE=Release/RelWithDebInfo: assert() compiled out
                 'unsigned-char': ['-O2', '-g', '-funsigned-char', '-funsigned-bitfields'],  # plain char is unsigned on ARM/AArch64/PowerPC Linux targets
                 'Os': ['-Os', '-g', '-std=gnu2x'],                                 # size optimisation (__OPTIMIZE_SIZE__ paths)
                 'march-native': ['-O2', '-g', '-march=native'],     # whatever vector extensions this machine has (SSSE3/AVX2 fast paths)
                 'clang-O2': ['-O2', '-g']}
_cfg = {}
_cfg_lock = __import__('threading').Lock()


def build_variant(work, base, sources, v):
    """base monitor ('vssmon' / 'canmon') in configuration v; None when it cannot be built (skipped, not judged)."""
    with _cfg_lock:
        key = (work.dir, base, v)
        if key not in _cfg:
            name = '%s_%s' % (base, v.replace('-', '_'))
            try:
                if v == 'ilp32':
                    _cfg[key] = vlib.compile_ilp32(work, name, sources)
                elif v == 'msan':
                    _cfg[key] = vlib.compile_msan(work, name, sources)
                else:
                    _cfg[key] = vlib.compile_many(work, name, sources, VARIANT_FLAGS[v], cc='clang' if v.startswith('clang') else 'gcc')
            except vlib.HarnessError:
                _cfg[key] = None
        return _cfg[key]


def config_variants(obs, work, base, sources, jobs, seed, variants=('ilp32', 'ndebug', 'unsigned-char', 'Os', 'march-native', 'msan')):
    """The same monitor in other build configurations a user may choose: freestanding 32-bit (size_t, pointers and long are
    32 bits wide), -DNDEBUG, unsigned plain char, and under clang MemorySanitizer."""
    bins = vlib.run_parallel(lambda v: (v, build_variant(work, base, sources, v)), variants, workers=len(variants))
    for v, b in bins:
        vlib.run_variant(obs, b, [dict(j, VP_CANARY=1, VP_NULLEMPTY=1) for j in jobs], seed, v)


def guided(obs, work, what, tier, seed):
    """Coverage-guided stage (clang libFuzzer + ASan/UBSan): the case functions and oracles of the monitor with its generator fed
    from the fuzz input (mon/fuzz_vss.c, mon/fuzz_can.c)."""
    quick = dict(can=150000, encode=20000, decode=12000, pad=100000, strarr=4000)[what]
    runs = quick if tier == 'quick' else quick * 60
    if what == 'can':
        n = vfuzz.stage(obs, work, vfuzz.can_target(work), 'can', {}, runs, 8 if tier == 'quick' else 16, seed, max_len=400)
    else:
        n = vfuzz.stage(obs, work, vfuzz.vss_target(work), 'vss-' + what, dict(VP_FUZZ_OPS=what), runs, 8 if tier == 'quick' else 16, seed, max_len=1024)
    return '  Coverage-guided stage (libFuzzer, %s): %d executions with inputs derived from the comparisons the library executes.' % (what, n or 0)


def ilp32_variant(obs, work, mode, cases, seed, places=(0, 3)):
    nt0 = obs.stats.get('nontrivial', 0)
    config_variants(obs, work, 'vssmon', vss_sources(),
                    [dict(VP_MODE=mode, VP_CASES=cases, VP_FIRST=i * cases, VP_SEED=int(seed) + 31, VP_PLACE=pl) for i, pl in enumerate(places)], seed)
    obs.stats['nontrivial'] = nt0


def run_split(obs, binary, mode, total_cases, seed, nproc=16, extra=None, wrapper=None, timeout=1800):
    chunk = max(1, total_cases // nproc)
    jobs = []
    for i in range(nproc):
        e = dict(VP_MODE=mode, VP_CASES=chunk, VP_FIRST=i * chunk, VP_SEED=seed, VP_PLACE=i % 8)
        if extra:
            e.update(extra)
        jobs.append(e)
    vlib.run_parallel(lambda e: vlib.run_monitor(obs, binary, e, tag=mode, wrapper=wrapper, timeout=timeout), jobs)


def memcheck(obs, work, mode, cases, seed):
    """Thorough only: the same monitor under valgrind memcheck (uninitialised values, heap overruns)."""
    b = build_vssmon(work, 'plain')
    log = work.path('memcheck_%s.log' % mode)
    wrapper = ['valgrind', '--quiet', '--error-exitcode=97', '--log-file=' + log, '--track-origins=no']
    rc, so, se = vlib.run_monitor(obs, b, dict(VP_MODE=mode, VP_CASES=cases, VP_SEED=seed, VP_CANARY=1), tag='memcheck-' + mode,
                                  wrapper=wrapper, sanitizer_env=False, timeout=3000)
    txt = open(log).read() if os.path.exists(log) else ''
    if rc == 97 or 'Invalid read' in txt or 'Invalid write' in txt or 'uninitialised' in txt:
        import re
        first = re.search(r'==\d+== (Invalid \w+ of size \d+|Conditional jump or move depends on uninitialised value|Use of uninitialised value[^\n]*)', txt)
        fn = re.search(r'(?:at|by) 0x[0-9A-F]+: (\w+) \((\w+\.c):\d+\)', txt)
        obs.add_viol('memcheck:%s:%s:%s' % (mode, (first.group(1) if first else 'error').replace(' ', '-'), fn.group(1) if fn else '-'),
                     dict(log=txt[:2000]))
    obs.stat('memcheck_cases', cases)


def c06(tier, seed):
    t0 = time.time()
    work = vlib.Work('C06')
    try:
        obs = vlib.Obs()
        b = vlib.compile_many(work, 'canmon_asan', can_sources(), vlib.ASAN_FLAGS)
        R = 6 if tier == 'quick' else 400
        nseeds = 8 if tier == 'quick' else 64
        jobs = [dict(VP_SEED=int(seed) * 100 + i, VP_REPS=R, VP_PLACE=i % 8) for i in range(nseeds)]
        vlib.run_parallel(lambda e: vlib.run_monitor(obs, b, e, tag='can'), jobs)
        config_variants(obs, work, 'canmon', can_sources(), [dict(VP_SEED=int(seed) + 77, VP_REPS=2, VP_PLACE=pl) for pl in (0, 2)], seed)
        gnote = guided(obs, work, 'can', tier, seed)
        cov = dict(distinct_nontrivial=int(obs.stats.get('nontrivial', 0)) // nseeds,
                   long_lengths_observed=int(obs.stats.get('can.long_lengths_observed', 0)),
                   long_lengths_model_mismatch=int(obs.stats.get('can.long_lengths_model_mismatch', 0)),
                   rule='exhaustive payload length 0..64 x {classic, FD} x 4 builders (full one-shot, full SetPayload+fields+Finalize, '
                        'brief one-shot, brief copy+fields+Finalize) x 77 identifier cases (0, 1, every id 0x7F0..0x811, every single id bit, '
                        '2^29-1, ids >= 2^29, ...) + %d random ids x payload classes x 2 placements (16 KiB random arena at byte offsets 0..7: everything outside the padded '
                        'message must be unchanged; exact-extent heap message and source under ASan), %d seeds; return value, payload '
                        'length read-back and payload pointer checked, the payload handed in must be unchanged.  Lengths 65..2028 are observed and counted only (outside the '
                        'statement).  Non-trivial: distinct (length, builder, variant, identifier class) cells.' % (R, nseeds) + gnote,
                   exhaustive=True)
        return vlib.finish('C06', 'exploration', tier, seed, obs, cov, ASSUME[1:3] + [
            'builder model: hdr || payload || 0^pad, len=(H+L+pad)/4, pad=(4-L%4)%4, id mod 2^29, eff=(id>0x7FF) judged for ids < 2^29 only, fdf=variant'],
            t0, min_evals=20000)
    finally:
        work.cleanup()


def c07(tier, seed):
    t0 = time.time()
    work = vlib.Work('C07')
    try:
        obs = vlib.Obs()
        b = build_vssmon(work)
        N = 48000 if tier == 'quick' else 24000000
        run_split(obs, b, 'encode', N, seed)
        # an unoptimised (Debug-style) build of the same sources: conversions the optimiser folds away exist only there
        run_split(obs, build_vssmon(work, 'plain'), 'encode', N // 4, int(seed) + 1, nproc=8, extra=dict(VP_CANARY=1))
        ilp32_variant(obs, work, 'encode', 1500 if tier == 'quick' else 4000, seed, places=(0, 3) if tier == 'quick' else (0, 1, 3, 6))
        gnote = guided(obs, work, 'encode', tier, seed)
        cov = dict(distinct_nontrivial=int(obs.stats.get('nontrivial', 0)),
                   rule='%d generated messages: address mode 0..3 x all 256 datatype codes (24 defined, reserved ones revisited less '
                        'often) x static ids {0,1,2^32-1,...} / interop paths of length classes {0..15 by residue, 255, 256, 257, '
                        'random <= 5000, 65533} x values (scalars: extremes, byte-lane markers, NaN payloads, +-0, subnormals, '
                        'infinities; strings/arrays of length classes 0,1,2,3,13,255..257, random, maximum whole-element count); header '
                        'fields, SetVssPath and SetVssData each followed by a whole-arena comparison with the reference encoding, the caller\'s value bytes must be unchanged and a second encode of the same object must give the same message; a quarter of the '
                        'corpus again in an unoptimised gcc -O0 build and a few thousand messages in freestanding 32-bit (ILP32), -DNDEBUG, -funsigned-char -funsigned-bitfields, -Os -std=gnu2x, -march=native and clang MemorySanitizer builds.  '
                        'Non-trivial: a value of non-zero encoded size was written and matched, or a reserved mode wrote nothing.' % N + gnote)
        return vlib.finish('C07', 'exploration', tier, seed, obs, cov, ASSUME, t0, min_evals=20000)
    finally:
        work.cleanup()


def c08(tier, seed):
    t0 = time.time()
    work = vlib.Work('C08')
    try:
        obs = vlib.Obs()
        b = build_vssmon(work)
        N = 32000 if tier == 'quick' else 8000000
        for place in ([0, 1, 3, 6] if tier == 'quick' else range(8)):
            run_split(obs, b, 'decode', N // (4 if tier == 'quick' else 8), seed, nproc=16 if tier != 'quick' else 4, extra=dict(VP_PLACE=place))
        run_split(obs, build_vssmon(work, 'plain'), 'decode', N // 8, int(seed) + 1, nproc=8, extra=dict(VP_CANARY=1, VP_PLACE=5))
        ilp32_variant(obs, work, 'decode', 1500 if tier == 'quick' else 4000, seed, places=(0, 5) if tier == 'quick' else (0, 1, 5, 6))
        if tier == 'thorough':
            memcheck(obs, work, 'decode', 1500, seed)
        gnote = guided(obs, work, 'decode', tier, seed)
        cov = dict(distinct_nontrivial=int(obs.stats.get('nontrivial', 0)),
                   rule='%d well-formed messages from the reference encoder (24 datatypes x 2 address modes x path/value classes of '
                        'C07) decoded from an exact-extent heap block (over-reads trap) and from the arena at several byte offsets '
                        '(message must stay unmodified), every 4th also library-encoded (round trip): path size, path, scalar '
                        'values bit-exact, two-call protocol for the 13 variable-length types (length query writes only the length, '
                        'copy phase writes exactly the reported bytes into an exact-extent destination, elements bit-exact).  Result '
                        'objects live in an arena and are compared with a typed model.  An eighth of the corpus again in a gcc -O0 build, '
                        'a few thousand messages in freestanding 32-bit (ILP32), -DNDEBUG, -funsigned-char -funsigned-bitfields, -Os -std=gnu2x, -march=native and clang MemorySanitizer builds.  Each message counts once as non-trivial.' % N + gnote)
        return vlib.finish('C08', 'exploration', tier, seed, obs, cov, ASSUME, t0, min_evals=20000)
    finally:
        work.cleanup()


def c09(tier, seed):
    t0 = time.time()
    work = vlib.Work('C09')
    try:
        obs = vlib.Obs()
        b = build_vssmon(work)
        R = 6 if tier == 'quick' else 150
        jobs = [dict(VP_MODE='pad', VP_CASES=R, VP_SEED=int(seed) * 100 + i, VP_PLACE=i % 8) for i in range(8 if tier == 'quick' else 64)]
        vlib.run_parallel(lambda e: vlib.run_monitor(obs, b, e, tag='pad'), jobs)
        nt0 = int(obs.stats.get('nontrivial', 0))
        ilp32_variant(obs, work, 'pad', 3, seed, places=(0, 1) if tier == 'quick' else (0, 1, 2, 3))
        obs.stats['nontrivial'] = nt0
        # finalisation of real, consistent messages (built by the encoder of the same run): only the keys of the finalisation step count here
        o2 = vlib.Obs()
        run_split(o2, b, 'encode', 12000 if tier == 'quick' else 1200000, int(seed) + 5, nproc=8)
        for k, x in o2.viol.items():
            if 'pad-after-encode' in k or k.split(':')[0] in ('AddressSan', 'signal', 'hang'):
                obs.add_viol(k, x['details'][0] if x['details'] else None, count=x['count'], source=x.get('source'))
        obs.procs += o2.procs; obs.ended += o2.ended; obs.inconclusive += o2.inconclusive
        obs.stat('evals', o2.stats.get('evals', 0))
        gnote = guided(obs, work, 'pad', tier, seed)
        cov = dict(distinct_nontrivial=int(obs.stats.get('nontrivial', 0)) // len(jobs), exhaustive=True,
                   rule='exhaustive message length 12..2044 x prior contents {all 0xFF, zero body + 0xFF tail, %d random} x %d '
                        '(seed, byte offset) runs: after Avtp_Vss_Pad the 200 KiB arena must equal the model (length field = '
                        'ceil(n/4), pad field = (4-n%%4)%%4, bytes [n, n+pad) zero, nothing else); every length also on messages just built by the encoder (datatype, path and value lengths that add up; 0..2 application bytes behind), in a buffer of exactly the padded size in front of an inaccessible page and, under ASan, in an exact-size heap block (nothing behind the pad bytes may be touched, not even rewritten with the same value); all 512 length values through the '
                        'dedicated setter/getter vs the generic accessors on 3 backgrounds.  distinct_nontrivial = distinct lengths + '
                        'distinct length-field values.  '
                        'The same sweep (3 backgrounds, 2-4 offsets) in freestanding 32-bit (ILP32), -DNDEBUG, -funsigned-char -funsigned-bitfields, -Os -std=gnu2x, -march=native and clang MemorySanitizer builds.' % (R - 2, len(jobs)) + gnote)
        return vlib.finish('C09', 'exploration', tier, seed, obs, cov, ASSUME[1:3], t0, min_evals=10000)
    finally:
        work.cleanup()


def c10(tier, seed):
    t0 = time.time()
    work = vlib.Work('C10')
    try:
        obs = vlib.Obs()
        b = build_vssmon(work)
        N = 6400 if tier == 'quick' else 1600000
        run_split(obs, b, 'strarr', N, seed, nproc=32 if tier == 'quick' else 64)
        ilp32_variant(obs, work, 'strarr', 150 if tier == 'quick' else 400, seed, places=(0, 1))
        if tier == 'thorough':
            memcheck(obs, work, 'strarr', 300, seed)
        gnote = guided(obs, work, 'strarr', tier, seed)
        cov = dict(distinct_nontrivial=int(obs.stats.get('nontrivial', 0)),
                   rule='%d string lists: counts {0, 1, 3, 255, 256, 257..656, random < 3200, small}, length profiles {0..2, 0..299, '
                        'empty last string, one string filling 65535 bytes, 0..19}; packed by the library into an exact-extent block '
                        'and compared with the reference concatenation; counted; unpacked from an exact-extent copy of the reference '
                        'packing with requested counts {0, n-1, n, n+1, n+7, n+8} in lengths-only and copy phases (exact-extent '
                        'destinations); string objects and the pointer array live in an arena (objects beyond the packed count must '
                        'stay untouched); the strings packed and the packed array unpacked must be unchanged afterwards; a few hundred lists in freestanding 32-bit (ILP32), -DNDEBUG, -funsigned-char -funsigned-bitfields, -Os -std=gnu2x, -march=native and clang MemorySanitizer builds.  Each list counts once as non-trivial.' % N + gnote)
        return vlib.finish('C10', 'exploration', tier, seed, obs, cov, ASSUME, t0, min_evals=20000)
    finally:
        work.cleanup()


BUILDERS = {'vssmon_asan': lambda work: build_vssmon(work), 'canmon_asan': lambda work: vlib.compile_many(work, 'canmon_asan', can_sources(), vlib.ASAN_FLAGS)}
CHECKS = dict(C06=c06, C07=c07, C08=c08, C09=c09, C10=c10)
