"""C13: byte-order helpers (bomon)."""
import os, time
import vlib
from vlib import VERIF

BE_DEF = ['-U__BYTE_ORDER__', '-D__BYTE_ORDER__=__ORDER_BIG_ENDIAN__']


def build_bomon(work, cc='gcc', opt='-O2', hosted=False):
    inc = ['-I' + os.path.join(vlib.REPO, 'include'), '-I' + os.path.join(VERIF, 'mon')]
    name = 'bomon_%s%s%s' % (cc, opt.replace('-', '_').replace(' ', '').replace('=', ''), '_hosted' if hosted else '')
    hdef = ['-DVP_HOSTED_FIRST'] if hosted else []
    d = work.path('obj_' + name)
    os.makedirs(d, exist_ok=True)
    wrap = os.path.join(VERIF, 'mon', 'bo_wrap.c')
    steps = [
        [cc, '-std=gnu99', '-w'] + opt.split() + ['-g'] + inc + hdef + ['-DPFX=le_', '-c', wrap, '-o', d + '/le.o'],
        [cc, '-std=gnu99', '-w'] + opt.split() + ['-g'] + inc + hdef + BE_DEF + ['-DPFX=be_', '-c', wrap, '-o', d + '/be.o'],
        [cc, '-std=gnu99', '-w'] + opt.split() + ['-g'] + inc + ['-c', os.path.join(VERIF, 'mon', 'bomon.c'), '-o', d + '/bomon.o'],
        [cc, '-std=gnu99', '-w'] + opt.split() + ['-g'] + inc + ['-c', os.path.join(VERIF, 'mon', 'vpcore.c'), '-o', d + '/vpcore.o'],
        [cc, '-std=gnu99', '-w'] + opt.split() + ['-g'] + inc + ['-c', os.path.join(VERIF, 'mon', 'platform_native.c'), '-o', d + '/plat.o'],
    ]
    for s in steps:
        rc, so, se = vlib.run(s)
        if rc != 0:
            raise vlib.HarnessError('bomon build failed: %s\n%s' % (' '.join(s), se[-2000:]))
    binp = work.path(name)
    rc, so, se = vlib.run([cc, d + '/le.o', d + '/be.o', d + '/bomon.o', d + '/vpcore.o', d + '/plat.o', '-o', binp])
    if rc != 0:
        raise vlib.HarnessError('bomon link failed: ' + se[-2000:])
    return binp


def c13(tier, seed):
    t0 = time.time()
    work = vlib.Work('C13')
    try:
        obs = vlib.Obs()
        variants = [('gcc', '-O2', False), ('gcc', '-O0', False), ('clang', '-O2', False), ('gcc', '-O2', True), ('clang', '-O1', True),
                    ('gcc', '-Os', False), ('clang', '-Oz', False), ('gcc', '-O3 -march=native', False), ('gcc', '-O2 -funsigned-char -funsigned-bitfields -DNDEBUG', False), ('gcc', '-O2 -std=gnu2x', False), ('gcc', '-O2 -std=c11', False)] + \
            ([('clang', '-O0', False), ('gcc', '-O3', False), ('gcc', '-O0', True)] if tier == 'thorough' else [])
        bins = vlib.run_parallel(lambda v: build_bomon(work, v[0], v[1], v[2]), variants, workers=8)
        jobs = []
        for b in bins:
            jobs.append((b, dict(VP_WIDTH=16)))
        main = bins[0]
        if tier == 'thorough':
            for p in range(16):
                jobs.append((main, dict(VP_WIDTH=32, VP_FULL32=1, VP_PART=p, VP_PARTS=16)))
            for p in range(16):
                jobs.append((main, dict(VP_WIDTH=64, VP_PART=p, VP_PARTS=16, VP_RANDOM=1000000000)))
            for b in bins[1:]:
                jobs.append((b, dict(VP_WIDTH=32, VP_PART=0, VP_PARTS=4)))
                jobs.append((b, dict(VP_WIDTH=64, VP_RANDOM=2000000)))
        else:
            for b in bins:
                for p in range(4):
                    jobs.append((b, dict(VP_WIDTH=32, VP_PART=p, VP_PARTS=4, VP_RANDOM=4000000)))
                jobs.append((b, dict(VP_WIDTH=64, VP_RANDOM=10000000 if b == main else 1000000)))
        vlib.run_parallel(lambda j: vlib.run_monitor(obs, j[0], dict(j[1], VP_SEED=seed, VP_COUNTNT=1 if j[0] == main else 0), tag='bo', sanitizer_env=False, timeout=3000), jobs)
        cov = dict(distinct_nontrivial=int(obs.stats.get('nontrivial', 0)), exhaustive=(tier == 'thorough'),
                   build_variants=['%s %s%s' % (v[0], v[1], ' libc-headers-first' if v[2] else '') for v in variants],
                   rule='12 helpers + 3 swap primitives of both compile-time branches (native, and __BYTE_ORDER__ forced to big-endian), built at several '
                        'optimisation levels, also with libc headers (<stdlib.h>, <endian.h>, <arpa/inet.h>) included before Byteorder.h, and called '
                        'with literal constants as well as run-time values: '
                        '16-bit exhaustive in every build; 32-bit %s; 64-bit all 8! lane permutations of distinct byte markers, walking '
                        'ones/zeros, byte-lane saturations and random values.  Native set: memory image of CpuToBeN/CpuToLeN compared with '
                        'the big/little-endian byte sequence of x, to-host helpers invert, swaps reverse bytes and are involutions; '
                        'big-endian branch: identity/byte-reversal contract of a big-endian host and mirror-image relation with the native '
                        'set (its memory images are checked under the big-endian emulator in C14).  Non-trivial: values whose byte '
                        'reversal differs from themselves.' % ('exhaustive (2^32 values over 16 processes)' if tier == 'thorough' else '2^24 strided + structured + random'))
        return vlib.finish('C13', 'exploration', tier, seed, obs, cov, [
            'host is little-endian: the big-endian branch is checked at value level here and at memory-image level under the emulator of C14',
            'gcc/clang accept -U__BYTE_ORDER__ -D__BYTE_ORDER__=__ORDER_BIG_ENDIAN__ and select the other branch (verified at start of every run)'],
            t0, min_evals=1000000)
    finally:
        work.cleanup()


CHECKS = dict(C13=c13)
