"""C20: public headers can be combined freely (generated translation units, compiled as C and C++, linked, executed)."""
import os, random, sys, time
import vlib
from vlib import VERIF
sys.path.insert(0, os.path.join(VERIF, 'tools'))
import hdrgen as H
import vchecks_field as F


def build_lib_objects(work):
    d = work.path('libobj')
    os.makedirs(d, exist_ok=True)
    srcs = vlib.lib_sources()
    objs = [os.path.join(d, '%03d.o' % i) for i in range(len(srcs))]

    def one(i):
        rc, so, se = vlib.run(['gcc', '-std=gnu99', '-w', '-O1', '-I' + os.path.join(vlib.REPO, 'include'), '-c', srcs[i], '-o', objs[i]])
        if rc != 0:
            raise vlib.HarnessError('library source does not compile: %s\n%s' % (srcs[i], se[-1500:]))
    vlib.run_parallel(one, range(len(srcs)))
    return objs


def designations(work):
    src = vlib.lib_sources() + vlib.gen_bindings(work) + [os.path.join(VERIF, 'mon', 'designate.c')]
    b = vlib.compile_many(work, 'designate', src, ['-O1'])
    rc, so, se = vlib.run([b])
    if rc != 0:
        return {}      # designation is descriptive only; the verdict rests on the printed values
    d = {}
    for line in so.splitlines():
        _, fmt, fid, first, n, nm, hdr = line.split('|')
        d[(hdr, int(fid))] = (fmt, int(first), int(n), nm)
    return d


def c20(tier, seed):
    t0 = time.time()
    work = vlib.Work('C20')
    try:
        obs = vlib.Obs()
        repo = vlib.REPO
        headers = H.public_headers(repo)
        if len(headers) < 2:
            raise vlib.HarnessError('no public headers found')
        objs = build_lib_objects(work)
        desig = designations(work)
        tudir = work.path('tu')
        os.makedirs(tudir)
        R = H.Runner(repo, tudir, objs)
        # step 1: every header alone
        infos, alone = {}, {'c': {}, 'cpp': {}}
        for h in headers:
            info, err = H.scan_header(repo, h)
            if info is None:
                obs.add_viol('headers:%s:c:does-not-preprocess-alone' % h, dict(stderr=err[:800]))
                continue
            infos[h] = info
        nnames = sum(len(i['macros']) + len(i['enums']) + len(i['types']) for i in infos.values())

        sys.path.insert(0, os.path.join(VERIF, 'spec'))
        import spec as S
        formats = {f['header']: f for f in S.load()['formats']}

        def alone_run(job):
            h, lang = job
            st, res, raw = R.build_run([h], {h: infos[h]}, lang, formats)
            return h, lang, st, res, raw
        jobs = [(h, l) for h in infos for l in ('c', 'cpp')]
        notvalue = {}
        for h, lang, st, res, raw in vlib.run_parallel(alone_run, jobs):
            if st != 'ok':
                obs.add_viol('headers:%s:%s:%s-alone:%s' % (h, lang, st, res), dict(diagnostic=raw[:800]))
            else:
                alone[lang][h] = {n: v for (hh, n), v in res.items() if hh == h}
                for n, v in alone[lang][h].items():
                    if v in ('undefined', 'not-an-integer-constant-expression'):
                        notvalue.setdefault(h, set()).add(n)
        # names that are not integer values (or are undefined again) at the end of their own header are not public values
        for h, names in notvalue.items():
            infos[h] = dict(infos[h], macros=[x for x in infos[h]['macros'] if x[0] not in names], enums=[x for x in infos[h]['enums'] if x not in names])
            for lang in ('c', 'cpp'):
                for n in names:
                    alone[lang].get(h, {}).pop(n, None)
        # intersect macro lists so that both languages dump the same names
        ok_headers = [h for h in headers if h in alone['c'] and h in alone['cpp']]
        evals = 0
        distinct = 0
        samples = []

        def describe(h, name, a, v):
            d = dict(header=h, name=name, alone=a, combined=v)
            try:
                da, dv = desig.get((h, int(a))), desig.get((h, int(v)))
                if da and name == da[3] or (da and name.endswith(da[3].split('FIELD_')[-1])):
                    d['designates_alone'] = '%s bits [%d,%d) %s' % (da[0], da[1], da[1] + da[2], da[3])
                    if dv:
                        d['designates_combined'] = '%s bits [%d,%d) %s' % (dv[0], dv[1], dv[1] + dv[2], dv[3])
            except (ValueError, TypeError):
                pass
            return d

        # step 2: all ordered pairs, both languages
        pair_jobs = [(a, b, l) for a in ok_headers for b in ok_headers if a != b for l in ('c', 'cpp')]

        def pair_run(job):
            a, b, lang = job
            st, res, raw = R.build_run([a, b], infos, lang, formats)
            return job, st, res, raw
        pair_bad = {}     # (a,b) -> set of reasons, used to explain larger sets
        for (a, b, lang), st, res, raw in vlib.run_parallel(pair_run, pair_jobs):
            evals += 1
            if st != 'ok':
                obs.add_viol('headers:%s+%s:%s:%s:%s' % (a, b, lang, st, res), dict(first_diagnostic=raw[:600], order=[a, b]))
                pair_bad.setdefault((a, b), set()).add(st)
                continue
            ch = H.compare(alone[lang], res, [a, b])
            distinct += 1
            if len(samples) < 4 and lang == 'c' and (a, b) in ((ok_headers[3], ok_headers[9]), (ok_headers[0], ok_headers[1]), (ok_headers[-1], ok_headers[2])):
                samples.append(dict(order=[a, b], lang=lang, names_compared=len(res), changed=len(ch),
                                    example={k[1]: v for k, v in list(res.items())[:3]}))
            for h, n, av, v in ch:
                obs.add_viol('headers:%s+%s:%s:name-changed:%s:%s' % (a, b, lang, h, n), describe(h, n, av, v))
                pair_bad.setdefault((a, b), set()).add('name:' + n)
        # step 2b: which byte-order helper set a unit gets must not depend on what was included before avtp/Byteorder.h - also on a
        # big-endian target.  The selection is made by the preprocessor, so it is observed here by compiling the same units with the
        # compiler's byte-order macro overridden (the probe then runs the big-endian helper set on this host).
        BO = 'avtp/Byteorder.h'
        BEF = ['-U__BYTE_ORDER__', '-D__BYTE_ORDER__=__ORDER_BIG_ENDIAN__']
        if BO in ok_headers:
            st0, res0, raw0 = R.build_run([BO], {BO: infos[BO]}, 'c', formats, extra_flags=BEF)
            if st0 == 'ok':
                alone_be = {n: v for (hh, n), v in res0.items() if hh == BO and n.startswith('probe:')}

                def be_run(job):
                    a, b = job
                    st, res, raw = R.build_run([a, b], infos, 'c', formats, extra_flags=BEF)
                    return job, st, res, raw
                be_jobs = [(h, BO) for h in ok_headers if h != BO] + [(BO, h) for h in ok_headers if h != BO]
                for (a, b), st, res, raw in vlib.run_parallel(be_run, be_jobs):
                    evals += 1
                    if st != 'ok':
                        continue          # compile problems of the pair are reported by step 2
                    distinct += 1
                    for (hh, n), v in res.items():
                        if hh == BO and n in alone_be and alone_be[n] != v:
                            obs.add_viol('headers:%s+%s:c:byte-order-macro-big-endian:name-changed:%s:%s' % (a, b, BO, n), dict(alone=alone_be[n], combined=v, order=[a, b]))
            else:
                obs.notes.append('big-endian-macro variant of avtp/Byteorder.h alone did not build: ' + str(res0)[:120])
        # step 3: larger sets (all headers in several orders; random subsets in the thorough tier)
        rng = random.Random(int(seed))
        sets = []
        for k in range(4 if tier == 'quick' else 20):
            o = list(ok_headers)
            if k == 1:
                o.reverse()
            elif k > 1:
                rng.shuffle(o)
            sets.append(o)
        for k in range(12 if tier == 'quick' else 500):
            n = rng.randint(3, len(ok_headers) - 1)
            sets.append(rng.sample(ok_headers, n))
        # ordered triples: all of those coupled through a shared macro name or #pragma state; a sample (quick) or all (thorough) of the rest
        coupled, coupling = H.coupled_triples(repo, ok_headers)
        sets += coupled
        all_triples = [[a, b, c2] for a in ok_headers for b in ok_headers for c2 in ok_headers if len({a, b, c2}) == 3]
        sets += all_triples if tier == 'thorough' else rng.sample(all_triples, 60)

        def set_run(job):
            hs, lang = job
            # headers of a pair that is already known to conflict are thinned out so the rest of the set is still observed
            cur = list(hs)
            dropped = []
            for i in range(len(cur)):
                for j in range(len(cur)):
                    pass
            changed = True
            while changed:
                changed = False
                for i, a in enumerate(cur):
                    for b in cur[i + 1:]:
                        if (a, b) in pair_bad:
                            cur.remove(b)
                            dropped.append(b)
                            changed = True
                            break
                    if changed:
                        break
            st, res, raw = R.build_run(cur, infos, lang, formats)
            return hs, cur, dropped, lang, st, res, raw
        for hs, cur, dropped, lang, st, res, raw in vlib.run_parallel(set_run, [(s, l) for s in sets for l in (('c', 'cpp') if len(s) != 3 or s in coupled else ('c',))]):
            evals += 1
            sid = 'set%d:%s' % (len(cur), __import__('hashlib').sha1('+'.join(cur).encode()).hexdigest()[:10])
            if st != 'ok':
                obs.add_viol('headers:%s:%s:%s:%s' % (sid, lang, st, res), dict(order=cur, dropped_known_conflicts=dropped, first_diagnostic=raw[:600]))
                continue
            distinct += 1
            for h, n, av, v in H.compare(alone[lang], res, cur):
                obs.add_viol('headers:%s:%s:name-changed:%s:%s' % (sid, lang, h, n), dict(describe(h, n, av, v), order=cur, dropped_known_conflicts=dropped))
        obs.stat('evals', evals + len(jobs))
        cov = dict(distinct_nontrivial=distinct, headers=len(headers), public_names=nnames, ordered_pairs=len(pair_jobs) // 2,
                   larger_sets=len(sets), macro_coupled_triples=len(coupled), macro_couplings=coupling, exhaustive=True, samples=samples or [dict(headers=len(headers))],
                   rule='%d public headers: names (%d object-like integer macros, enumerators, struct typedefs) attributed to their '
                        'defining header from gcc -E -dD output; each header alone, every ordered pair (exhaustive) and %d larger sets/'
                        'orders are turned into a translation unit that prints every owned name (values, sizeof, offsetof), compiled '
                        'as C99 (gcc) and C++17 (g++) - the includes-only unit also under -std=c11, -std=c2x, -std=c++98 and -std=c++20 -, linked against the library and executed; every printed value must equal the '
                        'alone-dump, and field enumerators are mapped by execution of the generic writer to the bits they designate.  Every unit is '
                        'compiled at -O2 in two steps (includes only; then the dump), linked with a second unit including the same headers (a '
                        'definition leaking from a header breaks the link) and contains, for C, a direct-call behaviour probe of the format '
                        'the header declares (get, set, get, replace bytes, get).  Ordered triples coupled through a shared macro name or '
                        '#pragma state are enumerated completely, all other ordered triples sampled (quick) or enumerated (thorough).  '
                        'distinct_nontrivial = translation units that compiled, ran and were compared.' % (len(headers), nnames, len(sets)))
        obs.procs = evals
        obs.ended = evals
        return vlib.finish('C20', 'exploration', tier, seed, obs, cov, [
            'public names are those the scanner extracts (object-like macros with integer value, enumerators, struct/union typedefs with payload); function prototypes are exercised only through compilation',
            'gcc 12 -std=c99 and g++ 12 -std=gnu++17 (the headers rely on GNU zero-length arrays, so -pedantic is not used)',
            'conflicts among three or more headers that no contained pair shows are only sampled'],
            t0, min_evals=100)
    finally:
        work.cleanup()


CHECKS = dict(C20=c20)
