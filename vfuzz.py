"""Coverage-guided stage shared by several checks: clang libFuzzer + ASan + UBSan targets whose oracle is the same reference
model as in the generated corpora (mon/fuzz_*.c).  Bounded by number of executions (-runs), not by time."""
import json, os, re, threading
import vlib
from vlib import VERIF

FUZZ_FLAGS = ['-O1', '-g', '-fsanitize=fuzzer,address,undefined', '-fno-sanitize=alignment', '-fno-sanitize-recover=all']
_lock = threading.Lock()
_built = {}


def build(work, name, sources, extra_inc=()):
    """None when the fuzz target cannot be built (a configuration that is skipped, not judged)."""
    with _lock:
        key = (work.dir, name)
        if key not in _built:
            try:
                _built[key] = vlib.compile_many(work, name, sources, FUZZ_FLAGS, cc='clang', extra_inc=list(extra_inc), link_flags=['-lm'])
            except vlib.HarnessError as e:
                _built[key] = None
        return _built[key]


def field_target(work):
    src = vlib.lib_sources() + vlib.gen_bindings(work) + vlib.core_sources() + [os.path.join(VERIF, 'mon', 'fuzz_field.c')]
    return build(work, 'fuzz_field', src)


def field_seeds(ops='all'):
    """Seed corpus: for every format, inputs whose operations touch every field through every path (the fuzzer then only has
    to find the *contents and values*, not the structure)."""
    import sys
    sys.path.insert(0, os.path.join(VERIF, 'spec'))
    import spec as S
    out = []
    fmts = S.load()['formats']
    kinds = []
    if ops == 'all' or 'get' in ops:
        kinds.append(2)
    if ops == 'all' or 'set' in ops:
        kinds += [5, 7]
    if ops == 'all' or 'init' in ops:
        kinds += [0, 1]
    for fi, f in enumerate(fmts):
        nf = len(f['fields'])
        triples = [(k, x, sel) for k in kinds for x in range(nf) for sel in (0, 1, 2)] if kinds else []
        for place in (0, 1):
            for c in range(0, len(triples), 20):
                b = bytearray([fi, place, c & 255]) + bytearray(f['bytes'])
                for ti, (k, x, sel) in enumerate(triples[c:c + 20]):
                    b += bytes([k | 0x80 | (0x40 if ('badargs' in ops and ti % 3 == 2) else 0), x, sel, x]) + (0x0123456789abcdef ^ (x * 0x0101010101010101)).to_bytes(8, 'little')
                out.append(bytes(b))
    return out


def vss_target(work):
    src = vlib.lib_sources() + vlib.core_sources() + [os.path.join(VERIF, 'model', 'vssref.c'), os.path.join(VERIF, 'mon', 'fuzz_vss.c')]
    return build(work, 'fuzz_vss', src)


def can_target(work):
    src = vlib.lib_sources() + vlib.core_sources() + [os.path.join(VERIF, 'mon', 'fuzz_can.c')]
    return build(work, 'fuzz_can', src)


def e_base(env):
    e = dict(ASAN_OPTIONS='detect_leaks=0:handle_abort=1:quarantine_size_mb=16', UBSAN_OPTIONS='print_stacktrace=1')
    e.update({a: str(b) for a, b in env.items()})
    return e


def stage(obs, work, binary, label, env, runs, njobs, seed, max_len=512, seeds=()):
    """Run njobs independent libFuzzer processes of `runs` executions each.  Violations printed by the target as
    'VP-FUZZ|key|json' (then abort) and sanitizer reports become violation keys; the crashing input is kept in the details."""
    if binary is None:
        obs.notes.append('coverage-guided stage %s skipped (target could not be built)' % label)
        return
    corp0 = work.path('seedcorpus_' + label)
    os.makedirs(corp0, exist_ok=True)
    for i, b in enumerate(seeds):
        open(os.path.join(corp0, 'seed%03d' % i), 'wb').write(b)

    def one(k):
        art = work.path('art_%s_%d' % (label, k))
        out = work.path('corp_%s_%d' % (label, k))
        os.makedirs(art, exist_ok=True)
        os.makedirs(out, exist_ok=True)
        e = dict(ASAN_OPTIONS='detect_leaks=0:handle_abort=1:quarantine_size_mb=16', UBSAN_OPTIONS='print_stacktrace=1')
        e.update({a: str(b) for a, b in env.items()})
        rc, so, se = vlib.run([binary, out, corp0, '-runs=%d' % runs, '-max_len=%d' % max_len, '-seed=%d' % (int(seed) * 100 + k + 1), '-artifact_prefix=' + art + '/',
                               '-timeout=120', '-rss_limit_mb=4000', '-use_value_profile=1', '-print_final_stats=1', '-len_control=0'], env=e, timeout=7200)
        return k, rc, se + '\n' + so[-20000:], art
    execs, feats = 0, []
    for k, rc, se, art in vlib.run_parallel(one, list(range(njobs))):
        obs.procs += 1
        m = re.search(r'stat::number_of_executed_units: (\d+)', se)
        execs += int(m.group(1)) if m else 0
        c = re.findall(r'cov: (\d+) ft: (\d+)', se)
        if c:
            feats.append(int(c[-1][1]))
        files = sorted(os.listdir(art))
        if rc == 0 and not files:
            obs.ended += 1
            continue
        data = open(os.path.join(art, files[0]), 'rb').read() if files else b''
        vm = re.search(r'^VP-FUZZ\|([^|\n]*)\|(.*)$', se, re.M) or re.search(r'^V\|([^|\n]*)\|(.*)$', se, re.M)
        src = dict(binary=os.path.basename(binary), env=dict(env), fuzz_input_hex=data[:600].hex())
        if vm:
            try:
                det = json.loads(vm.group(2))
            except Exception:
                det = dict(raw=vm.group(2)[:600])
            det['input_hex'] = data[:600].hex()
            obs.add_viol(vm.group(1) + '[coverage-guided]', det, source=src)
            obs.ended += 1
            continue
        reps = vlib.parse_sanitizer(se)
        if reps:
            for key, det in reps:
                obs.add_viol(key + '[coverage-guided:%s]' % label, dict(det or {}, input_hex=data[:600].hex()), source=src)
            obs.ended += 1
        elif files and files[0].startswith(('timeout-', 'slow-unit-')):
            # libFuzzer's per-input limit is wall-clock time: decide by CPU time on a re-run of that input alone
            r2, so2, se2 = vlib.run([binary, os.path.join(art, files[0])], env=e_base(env), timeout=900, cpu_limit=60)
            if r2 in (-24, -9, 152, 137):
                obs.add_viol('hang:coverage-guided:%s:one-input-needs-more-than-60-cpu-seconds' % label, dict(input_hex=data[:600].hex()), source=src)
            else:
                obs.notes.append('coverage-guided %s: libFuzzer reported a slow input that finished normally when re-run alone (machine load)' % label)
            obs.ended += 1
        elif files:
            obs.add_viol('fuzz-crash:%s' % label, dict(input_hex=data[:600].hex(), artifact=files[0], rc=rc, stderr_head=se[:1500], stderr=se[-1500:]), source=src)
            obs.ended += 1
        else:
            obs.inconclusive.append('coverage-guided process %s#%d exited %s without artifact: %s' % (label, k, rc, se[-300:]))
    obs.stat('fuzz_execs', execs)
    obs.stat('evals', execs)
    obs.stat('fuzz_features.' + label, max(feats) if feats else 0)
    return execs


BUILDERS = {'fuzz_field': field_target, 'fuzz_vss': vss_target, 'fuzz_can': can_target}
