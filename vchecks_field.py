"""Checks decided by the fieldmon engine: C01 C02 C03 C04 C05 C11 C12 C17."""
import os, sys, time
import vlib
import vfuzz
from vlib import VERIF

sys.path.insert(0, os.path.join(VERIF, 'spec'))
import spec as S


def format_ids():
    return [f['id'] for f in S.load()['formats']]


def fieldmon_sources(work):
    return vlib.lib_sources() + vlib.gen_bindings(work) + vlib.core_sources() + [os.path.join(VERIF, 'mon', 'fieldmon.c')]


_built = {}
_build_lock = __import__('threading').Lock()


OPTIONAL_VARIANTS = ('strict-c99', 'short-enums', 'ilp32', 'msan', 'ndebug', 'unsigned-char', 'no-byteorder-macros', 'Os', 'march-native')


def build_fieldmon(work, variant='asan'):
    with _build_lock:
        key = (work.dir, variant)
        if key not in _built:
            try:
                _built[key] = _build_fieldmon(work, variant)
            except vlib.HarnessError as e:
                if variant not in OPTIONAL_VARIANTS:
                    raise
                _built[key] = None          # an extra configuration that cannot be built here is skipped, not judged
                SKIPPED.append('%s: %s' % (variant, str(e).splitlines()[0][:200]))
        return _built[key]


SKIPPED = []


def _build_fieldmon(work, variant='asan'):
    src = fieldmon_sources(work)
    if variant == 'asan':
        return vlib.compile_many(work, 'fieldmon_asan', src, vlib.ASAN_FLAGS)
    if variant == 'ilp32':               # 32-bit target (the usual home of this library: automotive MCUs)
        return vlib.compile_ilp32(work, 'fieldmon_ilp32', src)
    if variant == 'strict-c99':          # the library built in strict ISO mode (CMAKE_C_EXTENSIONS OFF / an embedding project's flags)
        return vlib.compile_many(work, 'fieldmon_strict_c99', src, ['-O2', '-g'], std='-std=c99')
    if variant == 'short-enums':         # ABI flag that is the default of bare-metal ARM toolchains
        return vlib.compile_many(work, 'fieldmon_short_enums', src, ['-O2', '-g', '-fshort-enums'])
    if variant == 'ndebug':              # what CMAKE_BUILD_TYPE=Release/RelWithDebInfo/MinSizeRel add: assert() compiled out
        return vlib.compile_many(work, 'fieldmon_ndebug', src, ['-O2', '-g', '-DNDEBUG'])
    if variant == 'no-byteorder-macros': # a little-endian compiler that predefines none of __BYTE_ORDER__ / __ORDER_*_ENDIAN__ (MSVC, IAR, older gcc)
        return vlib.compile_many(work, 'fieldmon_no_byteorder_macros', src, ['-O2', '-g', '-U__BYTE_ORDER__', '-U__ORDER_LITTLE_ENDIAN__',
                                                                             '-U__ORDER_BIG_ENDIAN__', '-U__ORDER_PDP_ENDIAN__'])
    if variant == 'Os':                  # size optimisation (__OPTIMIZE_SIZE__ paths), compiled as C23 (-std=gnu2x: __STDC_VERSION__ > 201710L paths)
        return vlib.compile_many(work, 'fieldmon_Os', src, ['-Os', '-g', '-std=gnu2x'])
    if variant == 'march-native':        # whatever vector extensions this machine has
        return vlib.compile_many(work, 'fieldmon_march_native', src, ['-O2', '-g', '-march=native'])
    if variant == 'unsigned-char':       # plain char is unsigned on ARM/AArch64/PowerPC/RISC-V Linux targets
        # (and plain int bit-fields are unsigned on some of their compilers: -funsigned-bitfields)
        return vlib.compile_many(work, 'fieldmon_unsigned_char', src, ['-O2', '-g', '-funsigned-char', '-funsigned-bitfields'])
    if variant == 'msan':                # clang MemorySanitizer: results that depend on uninitialised memory
        b = vlib.compile_msan(work, 'fieldmon_msan', src)
        if b is None:
            raise vlib.HarnessError('MemorySanitizer build failed')
        return b
    cc, opt = variant.split('-')
    return vlib.compile_many(work, 'fieldmon_%s_%s' % (cc, opt), src, ['-' + opt, '-g'], cc=cc)


def run_modes(obs, binary, jobs, seed, tag=None):
    """jobs: list of env dicts (VP_MODE, VP_FORMATS, ...)."""
    def one(env):
        e = dict(env)
        e.setdefault('VP_SEED', seed)
        return vlib.run_monitor(obs, binary, e, tag=tag or e.get('VP_MODE'))
    vlib.run_parallel(one, jobs)


CONFIG_VARIANTS = ('strict-c99', 'short-enums', 'ilp32', 'ndebug', 'unsigned-char', 'no-byteorder-macros', 'Os', 'march-native', 'msan')


def config_variants(obs, work, jobs, seed, variants=CONFIG_VARIANTS):
    """The same monitor modes with the library built in other configurations a user may choose (language mode, ABI flags,
    32-bit target, NDEBUG) and under clang MemorySanitizer.  A configuration that cannot be built here is skipped with a note."""
    bins = vlib.run_parallel(lambda v: (v, build_fieldmon(work, v)), variants, workers=len(variants))
    for v, b in bins:
        vlib.run_variant(obs, b, [dict(j, VP_SAMPLES=0) for j in jobs], seed, v)
    obs.notes.extend('skipped build ' + x for x in SKIPPED)


def guided(obs, work, ops, tier, seed):
    """Coverage-guided stage (clang libFuzzer + ASan/UBSan, mon/fuzz_field.c): the same model oracle, but the inputs are found
    from the comparisons the library executes - values and contents outside every enumerated class."""
    runs = 300000 if tier == 'quick' else 12000000
    n = vfuzz.stage(obs, work, vfuzz.field_target(work), 'field-' + ops.replace(' ', '+'), dict(VP_FUZZ_OPS=ops), runs, 8 if tier == 'quick' else 16, seed,
                    seeds=vfuzz.field_seeds(ops))
    return ' Coverage-guided stage (libFuzzer, operations {%s}): %d executions.' % (ops, n or 0)


def filt(obs, prefixes):
    """Keep only violation keys that belong to this property (by key prefix) or sanitizer/signal keys."""
    keep = {}
    for k, v in obs.viol.items():
        if any(k.startswith(p) for p in prefixes) or k.split(':')[0] in ('argeval', 'hang', 'fuzz', 'fuzz-crash', 'AddressSan', 'UBSan', 'UndefinedBehaviorSan', 'LeakSan', 'ThreadSan', 'MemorySan', 'signal'):
            keep[k] = v
    obs.viol = keep


ASSUME_COMMON = [
    'spec/wire.spec transcribes IEEE 1722-2016 / acf-vss.md correctly (hand-written, positions derived by summing widths)',
    'reference bit-field model (mon/vpcore.c bf_get/bf_set) is correct',
    'gcc 12 AddressSanitizer/UBSan runtime; arena write monitor sees every byte of an 8 KiB region around the PDU',
    'additional builds of the same sources: strict -std=c99, -fshort-enums, -DNDEBUG, -funsigned-char -funsigned-bitfields, -Os -std=gnu2x, -march=native, clang MemorySanitizer (-O0, origin tracking), and a freestanding 32-bit (ILP32) i386 executable with its own runtime layer (mon/platform_ilp32.c)',
    'buffer contents and 64-bit values are sampled (PRNG seeded by VERIF_SEED); fields, paths, header bits and value classes are enumerated',
]


PLACES = (0, 4, 1, 2)    # PDU byte offsets from a 16-byte boundary: header 16-aligned, 64-bit fields 8-aligned, odd, 2 mod 4 (behind a 14-byte Ethernet header)


def reps(tier, quick, thorough):
    return thorough if tier == 'thorough' else quick


def c01(tier, seed):
    t0 = time.time()
    work = vlib.Work('C01')
    try:
        obs = vlib.Obs()
        b = build_fieldmon(work)
        R = reps(tier, 1500, 400000)
        jobs = [dict(VP_MODE='read', VP_FORMATS=f, VP_REPS=R if pl == 0 else max(50, R // 8), VP_PLACE=pl) for f in format_ids() for pl in PLACES]
        run_modes(obs, b, jobs, seed)
        named = int(obs.stats.get('nontrivial', 0)) // len(PLACES)
        run_modes(obs, b, [dict(VP_MODE='raw', VP_FORMATS='all', VP_REPS=reps(tier, 128, 4096))], seed)
        raw = int(obs.stats.get('nontrivial', 0)) - named * len(PLACES)
        config_variants(obs, work, [dict(VP_MODE='read', VP_FORMATS='all', VP_REPS=reps(tier, 100, 5000)), dict(VP_MODE='read', VP_FORMATS='all', VP_REPS=50, VP_PLACE=1),
                                    dict(VP_MODE='raw', VP_FORMATS='all', VP_REPS=64)], seed)
        # the same getter called repeatedly by name inside one optimised function while the buffer changes in between
        dj = [dict(VP_MODE='direct', VP_FORMATS='all', VP_REPS=reps(tier, 200, 20000), VP_PLACE=pl) for pl in (0, 1)]
        run_modes(obs, b, dj, seed)
        run_modes(obs, build_fieldmon(work, 'gcc-O2'), dj, seed, tag='direct-gcc-O2')
        run_modes(obs, build_fieldmon(work, 'clang-O2'), dj, seed, tag='direct-clang-O2')
        gnote = guided(obs, work, 'get', tier, seed)
        filt(obs, ['read:', 'raw:RAW:get', 'direct:'])
        cov = dict(distinct_nontrivial=named + raw, named_field_paths=named, raw_descriptor_shapes=raw, placements=list(PLACES),
                   rule='(at PDU byte offsets 0, 4, 1 and 2 from a 16-byte boundary) every spec field x {generic, dedicated} path x {zero, ones, checkerboards, field-saturated, field-cleared, '
                        'walking-1 and walking-0 over every header bit, every value of fields up to 12 bits wide, %d random buffers}; raw reader over start quadlet '
                        '{0..7,11,30,61,63,64,127,128,200,253} x bit offset 0..31 x width 0..64.  A (field,path) or descriptor shape counts as '
                        'non-trivial when the observed results were not all equal / a write changed bytes.' % R + gnote,
                   exhaustive=False, formats=len(format_ids()))
        return vlib.finish('C01', 'exploration', tier, seed, obs, cov, ASSUME_COMMON, t0, min_evals=100000)
    finally:
        work.cleanup()


def c02(tier, seed):
    t0 = time.time()
    work = vlib.Work('C02')
    try:
        obs = vlib.Obs()
        b = build_fieldmon(work)
        R = reps(tier, 1500, 400000)
        jobs = [dict(VP_MODE='write', VP_FORMATS=f, VP_REPS=R if pl == 0 else max(50, R // 8), VP_PLACE=pl) for f in format_ids() for pl in PLACES]
        run_modes(obs, b, jobs, seed)
        named = int(obs.stats.get('nontrivial', 0)) // len(PLACES)
        run_modes(obs, b, [dict(VP_MODE='raw', VP_FORMATS='all', VP_REPS=reps(tier, 128, 4096))], seed)
        raw = int(obs.stats.get('nontrivial', 0)) - named * len(PLACES)
        config_variants(obs, work, [dict(VP_MODE='write', VP_FORMATS='all', VP_REPS=reps(tier, 100, 5000)), dict(VP_MODE='write', VP_FORMATS='all', VP_REPS=50, VP_PLACE=1),
                                    dict(VP_MODE='raw', VP_FORMATS='all', VP_REPS=64)], seed)
        # "a read immediately after a write returns v" also for repeated direct calls inside one optimised function
        dj = [dict(VP_MODE='direct', VP_FORMATS='all', VP_REPS=reps(tier, 200, 20000), VP_PLACE=pl) for pl in (0, 1)]
        run_modes(obs, b, dj, seed)
        run_modes(obs, build_fieldmon(work, 'gcc-O2'), dj, seed, tag='direct-gcc-O2')
        run_modes(obs, build_fieldmon(work, 'clang-O2'), dj, seed, tag='direct-clang-O2')
        gnote = guided(obs, work, 'set', tier, seed)
        filt(obs, ['write:', 'raw:RAW:set', 'direct:'])
        cov = dict(distinct_nontrivial=named + raw, named_field_paths=named, raw_descriptor_shapes=raw, placements=list(PLACES),
                   rule='(at PDU byte offsets 0, 4, 1 and 2 from a 16-byte boundary) every spec field x {generic, dedicated} path x prior buffers {zero, ones, checkerboards, random} x 14 value '
                        'classes (0,1,max,msb,2^w,2^w+1,2^64-1,alternating,walking,random-fit,random-64) + every single bit of the '
                        'field set/cleared + every value of fields up to 12 bits wide (plain and with garbage above the width) + %d random (buffer,value) pairs; whole 8 KiB arena compared with the model after each '
                        'write, then read back.  Non-trivial: the write changed at least one bit.' % R + gnote,
                   exhaustive=False, formats=len(format_ids()))
        return vlib.finish('C02', 'exploration', tier, seed, obs, cov, ASSUME_COMMON, t0, min_evals=100000)
    finally:
        work.cleanup()


def c03(tier, seed):
    t0 = time.time()
    work = vlib.Work('C03')
    try:
        obs = vlib.Obs()
        variants = ['asan', 'gcc-O0', 'gcc-O2', 'clang-O2', 'unsigned-char', 'ndebug', 'short-enums'] + (['gcc-O3', 'clang-O0', 'clang-O3', 'strict-c99', 'no-byteorder-macros'] if tier == 'thorough' else [])
        bins = vlib.run_parallel(lambda v: (v, build_fieldmon(work, v)), variants, workers=4)
        for v, b in bins:
            if b is None:
                obs.notes.append('variant %s skipped (could not be built)' % v)
                continue
            jobs = [dict(VP_MODE='extent', VP_FORMATS=f, VP_EXTENT='heap' if v == 'asan' else 'guard') for f in format_ids()]
            run_modes(obs, b, jobs, seed, tag='extent-' + v)
        gnote = guided(obs, work, 'set init', tier, seed)
        filt(obs, ['extent:'])
        cov = dict(distinct_nontrivial=int(obs.stats.get('nontrivial', 0)),
                   rule='per format: sizeof(type), offsetof(payload), *_HEADER_LEN and payload accessor compared with the wire size; '
                        'then every field x {generic,dedicated,legacy} get and set, and every initialiser, on a buffer of exactly '
                        '*_HEADER_LEN bytes: malloc block under ASan (the header alone, and as the tail of a block of n+k bytes, k in {4,8,12,2,1}, so that it ends the object at every residue of its start address), and mmap blocks ending at / starting after a PROT_NONE page in '
                        'builds %s.  Non-trivial: accessor call on a field of non-zero width.' % ', '.join(variants) + gnote,
                   exhaustive=True, build_variants=variants)
        return vlib.finish('C03', 'exploration', tier, seed, obs, cov, ASSUME_COMMON + [
            'red zones / guard pages detect accesses adjacent to the buffer only; far stray writes are covered by the arena diff of C02/C04'],
            t0, min_evals=5000)
    finally:
        work.cleanup()


def c04(tier, seed):
    t0 = time.time()
    work = vlib.Work('C04')
    try:
        obs = vlib.Obs()
        b = build_fieldmon(work)
        R = reps(tier, 3000, 1000000)
        run_modes(obs, b, [dict(VP_MODE='init', VP_FORMATS=f, VP_REPS=R if pl == 0 else max(20, R // 8), VP_PLACE=pl) for f in format_ids() for pl in PLACES], seed)
        # first-call effects: processes whose first library call is the legacy initialiser, with rotated argument order
        lf = [f['id'] for f in S.load()['formats'] if f['legacy'] and f['legacy']['init']]
        run_modes(obs, b, [dict(VP_MODE='init', VP_FORMATS=f, VP_REPS=8, VP_LEGACYFIRST=1, VP_FIRSTARG=a) for f in lf for a in (255, 128, 1, 2, 254)], seed)
        config_variants(obs, work, [dict(VP_MODE='init', VP_FORMATS='all', VP_REPS=reps(tier, 200, 20000), VP_PLACE=pl) for pl in (0, 1)], seed, ('ilp32', 'ndebug', 'unsigned-char', 'no-byteorder-macros', 'msan', 'short-enums'))
        gnote = guided(obs, work, 'init', tier, seed)
        filt(obs, ['init:'])
        cov = dict(distinct_nontrivial=int(obs.stats.get('nontrivial', 0)), placements=list(PLACES),
                   rule='20 current + 4 legacy initialisers (avtp_cvf_pdu_init for all 256 format_subtype values) x prior contents '
                        '{0x00, 0xFF, 0xA5, %d random} of header and surrounding bytes; header compared with the canonical image of '
                        'spec/wire.spec, all other arena bytes must be unchanged, second call must change nothing.  Non-trivial: '
                        'prior header differed from the canonical image.' % R + gnote)
        return vlib.finish('C04', 'exploration', tier, seed, obs, cov, ASSUME_COMMON, t0, min_evals=10000)
    finally:
        work.cleanup()


def c05(tier, seed):
    t0 = time.time()
    work = vlib.Work('C05')
    try:
        obs = vlib.Obs()
        b = build_fieldmon(work)
        E = reps(tier, 400, 120000)
        run_modes(obs, b, [dict(VP_MODE='history', VP_FORMATS=f, VP_EPISODES=E if pl == 0 else max(20, E // 8), VP_PLACE=pl) for f in format_ids() for pl in PLACES], seed)
        # direct-call sequences (same getter called repeatedly in one function, buffer changed in between), in the ASan build and
        # in optimised gcc/clang builds: declaration-level slips (const/pure attributes, inlined fast paths) show only there
        dj = [dict(VP_MODE='direct', VP_FORMATS='all', VP_REPS=reps(tier, 400, 40000), VP_PLACE=pl) for pl in PLACES]
        run_modes(obs, b, dj, seed)
        for v in ('gcc-O2', 'clang-O2') + (('gcc-O3', 'clang-O1', 'gcc-O0') if tier == 'thorough' else ()):
            run_modes(obs, build_fieldmon(work, v), dj, seed, tag='direct-' + v)
        config_variants(obs, work, [dict(VP_MODE='history', VP_FORMATS='all', VP_EPISODES=reps(tier, 100, 5000))] + dj[:1], seed, ('ilp32', 'ndebug', 'unsigned-char', 'msan'))
        gnote = guided(obs, work, 'all', tier, seed)
        filt(obs, ['history:', 'direct:'])
        cov = dict(distinct_nontrivial=int(obs.stats.get('history.distinct_histories', 0)),
                   episodes=int(obs.stats.get('history.episodes', 0)), history_ops=int(obs.stats.get('history.ops', 0)),
                   commutation_pairs=int(obs.stats.get('history.commutation_pairs', 0)), state_pair_steps=int(obs.stats.get('history.state_pair_steps', 0)),
                   rule='%d episodes per format: 4..8 buffers of random formats (slot 0 of the format under test), 20..200 operations '
                        'drawn from {init current/legacy, set via generic/dedicated/legacy, get via any path}; after every operation '
                        'the touched arena and all other arenas are compared with the model; at episode end every getter on every '
                        'buffer; slot 0 history replayed alone must give identical bytes; plus all ordered field pairs of each format '
                        'for commutation and idempotence; plus direct-call sequences (get, set, get, replace header, get for every accessor, all '
                        'in one function) in the ASan build and optimised gcc/clang builds.  distinct_nontrivial = distinct operation-sequence '
                        'hashes.' % E + gnote)
        return vlib.finish('C05', 'exploration', tier, seed, obs, cov, ASSUME_COMMON, t0, min_evals=100000)
    finally:
        work.cleanup()


def c11(tier, seed):
    t0 = time.time()
    work = vlib.Work('C11')
    try:
        obs = vlib.Obs()
        b = build_fieldmon(work)
        seeds = range(reps(tier, 4, 600))
        jobs = [dict(VP_MODE='badargs', VP_FORMATS=f, VP_SEED=int(seed) * 1000 + s, VP_PLACE=PLACES[s % len(PLACES)]) for f in format_ids() for s in seeds]
        run_modes(obs, b, jobs, seed)
        gnote = guided(obs, work, 'badargs get set legacy', tier, seed)
        config_variants(obs, work, [dict(VP_MODE='badargs', VP_FORMATS='all', VP_SEED=int(seed) * 1000 + 999, VP_PLACE=pl) for pl in (0, 1)], seed, ('ilp32', 'ndebug', 'unsigned-char', 'msan'))   # not short-enums: identifiers >= 256 are not representable in the parameter type there
        filt(obs, ['badargs:'])
        cov = dict(distinct_nontrivial=int(obs.stats.get('nontrivial', 0)) // len(seeds), repetitions_with_other_buffers=len(seeds),
                   rule='per format: generic get/set with identifiers {MAX, MAX+1, 127, 128, 255, 256+k, 512+k, 65536+k for every '
                        'valid k, ceil(m*2^32/d)+k for d in {2,3,4,5,6,8,12,16,24} (identifiers that wrap to a valid index when scaled), INT_MAX, INT_MIN, -1, random} on all-ones/random buffers and {MAX, MAX+1, ...} on realistic headers (canonical image, length fields saturated, every field of <= 8 bits at each of its values) (reader must return 0, writer must leave '
                        'the whole arena unchanged); null PDU through every generic/dedicated accessor and initialiser (no fault); '
                        'legacy wrappers over {null,valid} PDU x {null,valid} result x identifiers (rc == -EINVAL / 0, result slot '
                        'untouched on error).  Every case is a distinct invalid-argument combination.' + gnote)
        return vlib.finish('C11', 'exploration', tier, seed, obs, cov, ASSUME_COMMON + [
            'scope: field readers/writers, initialisers and legacy wrappers (DESIGN.md section 5); builders and the VSS codec have no null contract'],
            t0, min_evals=10000)
    finally:
        work.cleanup()


def c12(tier, seed):
    t0 = time.time()
    work = vlib.Work('C12')
    try:
        obs = vlib.Obs()
        b = build_fieldmon(work)
        R = reps(tier, 3000, 1000000)
        fm = [f['id'] for f in S.load()['formats'] if f['legacy']]
        run_modes(obs, b, [dict(VP_MODE='legacy', VP_FORMATS=f, VP_REPS=R if pl == 0 else max(20, R // 8), VP_PLACE=pl) for f in fm for pl in PLACES], seed)
        dj = [dict(VP_MODE='direct', VP_FORMATS=f, VP_REPS=reps(tier, 400, 40000)) for f in fm]
        run_modes(obs, b, dj, seed)
        run_modes(obs, build_fieldmon(work, 'gcc-O2'), dj, seed, tag='direct-gcc-O2')
        config_variants(obs, work, [dict(VP_MODE='legacy', VP_FORMATS='all', VP_REPS=reps(tier, 200, 20000), VP_PLACE=pl) for pl in (0, 1)], seed, ('ilp32', 'ndebug', 'unsigned-char', 'msan', 'short-enums'))
        gnote = guided(obs, work, 'legacy get set init', tier, seed)
        filt(obs, ['legacy:', 'direct:'])
        cov = dict(distinct_nontrivial=int(obs.stats.get('nontrivial', 0)) // len(PLACES), legacy_formats=fm, placements=list(PLACES),
                   rule='5 legacy formats x every field identifier and every legacy alias macro: legacy get vs current GetField on '
                        'identical buffers (%d buffers per field), legacy set vs current SetField (bytes must be identical and equal '
                        'the model), legacy init vs current init (CVF: all 256 subtypes), alias macros must equal the enumerator of the '
                        'spec field and a write through the alias must change exactly that field; sizeof/offsetof of the packed '
                        'legacy structs.' % R + gnote)
        return vlib.finish('C12', 'exploration', tier, seed, obs, cov, ASSUME_COMMON, t0, min_evals=10000)
    finally:
        work.cleanup()


def c17(tier, seed):
    t0 = time.time()
    work = vlib.Work('C17')
    try:
        obs = vlib.Obs()
        b = build_fieldmon(work)
        R = reps(tier, 1500, 300000)
        sp = S.load()
        hubs = sorted(set(a for a, _, _, _ in sp['shares']))
        run_modes(obs, b, [dict(VP_MODE='views', VP_FORMATS=f, VP_REPS=R if pl == 0 else max(20, R // 8), VP_PLACE=pl) for f in hubs for pl in PLACES], seed)
        nt_views = int(obs.stats.get('nontrivial', 0))
        # the shared views called directly and repeatedly inside one function in optimised builds (declaration-level slips on the
        # common-header / ACF-common getters show only there)
        dj = [dict(VP_MODE='direct', VP_FORMATS=f, VP_REPS=reps(tier, 400, 40000), VP_PLACE=pl) for f in hubs for pl in (0, 1)]
        run_modes(obs, b, dj, seed)
        for v in ('gcc-O2', 'clang-O2'):
            run_modes(obs, build_fieldmon(work, v), dj, seed, tag='direct-' + v)
        config_variants(obs, work, [dict(VP_MODE='views', VP_FORMATS='all', VP_REPS=reps(tier, 100, 10000), VP_PLACE=pl) for pl in (0, 1)], seed, ('ilp32', 'ndebug', 'unsigned-char', 'msan'))
        gnote = guided(obs, work, 'views get set', tier, seed)
        filt(obs, ['views:', 'direct:'])
        cov = dict(distinct_nontrivial=nt_views // len(PLACES), share_pairs=len(sp['shares']), placements=list(PLACES),
                   rule='%d (format.field = format.field) pairs of the sharing relation in spec/wire.spec (common header x 7 stream '
                        'formats, ACF common x 10 ACF messages, stream fields across TSCF/AAF/PCM/CVF/RVF) x {generic,dedicated}^2 '
                        'paths x (6 fixed + %d random) buffers: read via A == read via B, write via A == write via B byte for byte, '
                        'write via A then read via B returns the value; values include ones derived from the current contents (equal halves, same low '
                        'bytes, neighbours); accessors of the hub formats also as direct-call sequences in optimised gcc/clang builds.' % (len(sp['shares']), R) + gnote)
        return vlib.finish('C17', 'exploration', tier, seed, obs, cov, ASSUME_COMMON, t0, min_evals=10000)
    finally:
        work.cleanup()


BUILDERS = {'fieldmon_asan': lambda work: build_fieldmon(work, 'asan'), 'fieldmon_strict_c99': lambda work: build_fieldmon(work, 'strict-c99'),
            'fieldmon_short_enums': lambda work: build_fieldmon(work, 'short-enums'), 'fieldmon_ilp32': lambda work: build_fieldmon(work, 'ilp32'),
            'fieldmon_ndebug': lambda work: build_fieldmon(work, 'ndebug'), 'fieldmon_Os': lambda work: build_fieldmon(work, 'Os'), 'fieldmon_march_native': lambda work: build_fieldmon(work, 'march-native'), 'fieldmon_no_byteorder_macros': lambda work: build_fieldmon(work, 'no-byteorder-macros'), 'fieldmon_unsigned_char': lambda work: build_fieldmon(work, 'unsigned-char'), 'fieldmon_msan': lambda work: build_fieldmon(work, 'msan')}
for _cc in ('gcc', 'clang'):
    for _o in ('O0', 'O1', 'O2', 'O3'):
        BUILDERS['fieldmon_%s_%s' % (_cc, _o)] = (lambda v: (lambda work: build_fieldmon(work, v)))('%s-%s' % (_cc, _o))
CHECKS = dict(C01=c01, C02=c02, C03=c03, C04=c04, C05=c05, C11=c11, C12=c12, C17=c17)
