"""vlib.py - shared orchestration for the Open1722 runtime monitors (python3 stdlib only).

Builds the monitors from /repo's current working tree into a private scratch directory,
runs them, collects what they observed (V| violation lines, S| counters, X| samples, H|
transcript hashes, sanitizer reports, signals), routes every violation key through the
known-findings list, writes the evidence file and replay files, and decides the exit code:
0 held / only known findings, 1 violation(s) not listed, 2 harness failure or inconclusive.
"""
import concurrent.futures as cf
import fnmatch, glob, hashlib, json, os, re, shutil, signal, subprocess, sys, time

VERIF = os.path.dirname(os.path.abspath(__file__))
REPO = os.environ.get('VERIF_REPO', '/repo')
NCPU = os.cpu_count() or 4
GUARD = 'COVESA_OPEN1722_VERIF'

ASAN_FLAGS = ['-O1', '-g', '-fno-omit-frame-pointer', '-fsanitize=address,undefined', '-fno-sanitize=alignment',
              '-fno-sanitize-recover=all']
ASAN_ENV = {'ASAN_OPTIONS': 'detect_leaks=0:handle_segv=0:handle_sigbus=0:abort_on_error=0:allocator_may_return_null=1',
            'UBSAN_OPTIONS': 'print_stacktrace=1'}


class HarnessError(Exception):
    pass


def lib_sources(repo=None):
    repo = repo or REPO
    src = sorted(glob.glob(os.path.join(repo, 'src', '**', '*.c'), recursive=True))
    if not src:
        raise HarnessError('no library sources under %s/src' % repo)
    return src


def core_sources():
    return [os.path.join(VERIF, 'mon', 'vpcore.c'), os.path.join(VERIF, 'mon', 'platform_native.c')]


class Work:
    """Scratch directory under /verif/.work, removed on exit."""

    def __init__(self, tag):
        self.dir = os.path.join(VERIF, '.work', '%s.%d' % (tag, os.getpid()))
        shutil.rmtree(self.dir, ignore_errors=True)
        os.makedirs(self.dir)

    def path(self, *p):
        return os.path.join(self.dir, *p)

    def cleanup(self):
        if not os.environ.get('VERIF_KEEP'):
            shutil.rmtree(self.dir, ignore_errors=True)


def run(cmd, env=None, timeout=600, cwd=None, stdin=None, cpu_limit=None):
    e = dict(os.environ)
    if env:
        e.update(env)
    if cpu_limit:
        # CPU-time limit (immune to machine load): a process far beyond its normal CPU use is spinning; it dies by SIGXCPU
        cmd = ['sh', '-c', 'ulimit -t %d; exec "$@"' % int(cpu_limit), 'sh'] + list(cmd)
    try:
        p = subprocess.run(cmd, env=e, cwd=cwd, stdout=subprocess.PIPE, stderr=subprocess.PIPE, timeout=timeout, input=stdin)
        return p.returncode, p.stdout.decode('utf-8', 'replace'), p.stderr.decode('utf-8', 'replace')
    except subprocess.TimeoutExpired as ex:
        return -999, (ex.stdout or b'').decode('utf-8', 'replace'), (ex.stderr or b'').decode('utf-8', 'replace') + '\nTIMEOUT'


_bind_lock = __import__('threading').Lock()


def gen_bindings(work):
    """Generate the binding TUs once per scratch directory (callers may build variants in parallel)."""
    with _bind_lock:
        out = work.path('bind')
        if not getattr(work, 'bindings', None):
            rc, so, se = run([sys.executable, os.path.join(VERIF, 'spec', 'gen_bindings.py'), out])
            if rc != 0:
                raise HarnessError('gen_bindings failed: ' + se)
            work.bindings = sorted(glob.glob(os.path.join(out, 'bind_*.c')))
        return list(work.bindings)


def compile_many(work, name, sources, flags, cc='gcc', extra_inc=(), link_flags=(), std='-std=gnu99', repo=None):
    """Compile sources in parallel into objects, link to work/<name>.  Returns binary path."""
    repo = repo or REPO
    objdir = work.path('obj_' + name)
    os.makedirs(objdir, exist_ok=True)
    inc = ['-I' + os.path.join(repo, 'include'), '-I' + os.path.join(VERIF, 'mon'), '-I' + os.path.join(VERIF, 'model')]
    for i in extra_inc:
        inc.append('-I' + i)
    jobs = []
    for i, s in enumerate(sources):
        o = os.path.join(objdir, '%03d_%s.o' % (i, os.path.basename(s)[:-2]))
        jobs.append((s, o))

    def one(job):
        s, o = job
        # -fcommon: a tentative definition leaking from a header into two units must not stop the monitors from running
        # (C20 links its own units without it and reports such leaks)
        cmd = [cc, std, '-w', '-fcommon', '-D' + GUARD] + list(flags) + inc + ['-c', s, '-o', o]
        rc, so, se = run(cmd, timeout=300)
        return rc, se, s

    with cf.ThreadPoolExecutor(max_workers=NCPU) as ex:
        res = list(ex.map(one, jobs))
    for rc, se, s in res:
        if rc != 0:
            raise HarnessError('compile failed (%s): %s\n%s' % (name, s, se[-3000:]))
    binp = work.path(name)
    cmd = [cc] + list(flags) + [o for _, o in jobs] + ['-o', binp] + list(link_flags)
    rc, so, se = run(cmd, timeout=300)
    if rc != 0:
        raise HarnessError('link failed (%s): %s' % (name, se[-3000:]))
    return binp


# ----------------------------------------------------------------------------- monitor output
class Obs:
    """What a set of monitor processes observed."""

    def __init__(self):
        self.viol = {}        # key -> dict(count, details[list], source)
        self.stats = {}       # name -> int (summed)
        self.samples = []
        self.hashes = {}      # (tag, chunk) -> (hash, items)
        self.procs = 0
        self.ended = 0
        self.notes = []
        self.inconclusive = []

    def add_viol(self, key, detail=None, count=1, source=None):
        v = self.viol.setdefault(key, dict(count=0, details=[], source=source))
        v['count'] += count
        if detail is not None and len(v['details']) < 3:
            v['details'].append(detail)

    def stat(self, k, n):
        self.stats[k] = self.stats.get(k, 0) + n


SAN_RE = re.compile(r'ERROR: (AddressSanitizer|LeakSanitizer|ThreadSanitizer|UndefinedBehaviorSanitizer): ([^\n]*)')
FRAME_RE = re.compile(r'#\d+ 0x[0-9a-f]+ in (\S+) (/[^\s:()]+)((?::\d+)*)')
UB_RE = re.compile(r'^(\S+?):(\d+):(\d+): runtime error: (.*)$', re.M)


def norm_path(p, repo=None):
    repo = repo or REPO
    p = os.path.normpath(p)
    for root in (repo, '/repo'):
        if p.startswith(root + '/'):
            return p[len(root) + 1:]
    return p


MSAN_RE = re.compile(r'WARNING: MemorySanitizer: ([\w-]+)')
MSAN_ORIGIN_RE = re.compile(r"Uninitialized value was created by an allocation of '([^']*)' in the stack frame of function '([^']*)'")


def parse_sanitizer(stderr, repo=None):
    """Return list of (key, detail) for sanitizer reports found in stderr."""
    out = []
    mm = MSAN_RE.search(stderr)
    if mm:
        # the value is usually *used* in the monitor (compared, hashed, printed); what identifies the defect is where it was
        # created: the library function owning the variable, else the first library frame of any of the stacks
        om = MSAN_ORIGIN_RE.search(stderr)
        fn, fl = '-', '-'
        created = stderr[stderr.find('Uninitialized value was created'):] if 'Uninitialized value was created' in stderr else ''
        for txt in (created, stderr):
            for fm in FRAME_RE.finditer(txt):
                path = norm_path(fm.group(2), repo)
                if path.startswith(('src/', 'examples/', 'include/')):
                    fn, fl = fm.group(1), path
                    break
            if fn != '-':
                break
        if fn == '-' and om:
            fn = om.group(2)
        if fn == '-':
            fm = FRAME_RE.search(stderr)
            fn, fl = (fm.group(1), 'monitor') if fm else ('-', '-')
        out.append(('MemorySan:%s:%s:%s%s' % (mm.group(1), fl, fn, (':' + om.group(1)) if om else ''),
                    dict(report=stderr[mm.start():mm.start() + 2500])))
    m = SAN_RE.search(stderr)
    if m:
        tool, msg = m.group(1), m.group(2)
        cls = msg.split(' on ')[0].split(' at ')[0].strip().split(':')[0]
        cls = re.sub(r'0x[0-9a-f]+', 'ADDR', cls)
        acc = 'READ' if re.search(r'\bREAD of size', stderr) else ('WRITE' if re.search(r'\bWRITE of size', stderr) else '-')
        fn, fl = '-', '-'
        for fm in FRAME_RE.finditer(stderr):
            path = norm_path(fm.group(2), repo)
            if path.startswith('src/') or path.startswith('examples/') or path.startswith('include/'):
                fn, fl = fm.group(1), path
                break
        cur = re.search(r'VP-CUROP: (.*)', stderr)
        key = '%s:%s:%s:%s:%s' % (tool.replace('Sanitizer', 'San'), cls.replace(' ', '-'), acc, fl, fn)
        out.append((key, dict(report=stderr[m.start():m.start() + 1500], curop=cur.group(1) if cur else None)))
    for um in UB_RE.finditer(stderr):
        path = norm_path(um.group(1), repo)
        msg = re.sub(r'0x[0-9a-f]+', 'ADDR', um.group(4))
        msg = re.sub(r" \(aka '[^']*'\)", '', msg)
        msg = re.sub(r'\b\d+\b', 'N', msg)
        key = 'UBSan:%s:%s' % (path, msg.replace(' ', '-')[:80])
        out.append((key, dict(report=um.group(0), line=int(um.group(2)))))
    return out


def parse_output(obs, stdout, tag=None):
    ended = False
    for line in stdout.splitlines():
        if not line:
            continue
        k = line[:2]
        if k == 'V|':
            parts = line.split('|', 2)
            key = parts[1]
            try:
                det = json.loads(parts[2]) if len(parts) > 2 and parts[2] else None
            except Exception:
                det = parts[2] if len(parts) > 2 else None
            obs.add_viol(key, det)
        elif k == 'S|':
            _, name, val = line.split('|', 2)
            try:
                obs.stat(name, int(val))
            except ValueError:
                pass
        elif k == 'X|':
            if len(obs.samples) < 40:
                try:
                    obs.samples.append(json.loads(line[2:]))
                except Exception:
                    obs.samples.append(line[2:])
        elif k == 'H|':
            _, chunk, h, n = line.split('|')
            obs.hashes[(tag, chunk)] = (h, int(n))
        elif line.startswith('END|'):
            ended = True
        elif line.startswith('ERR|'):
            obs.inconclusive.append(line)
    return ended


def run_monitor(obs, binary, env, tag=None, timeout=1200, sanitizer_env=True, wrapper=None, cpu_limit=None):
    """Run one monitor process; fold its observations into obs.  Returns (rc, stdout, stderr)."""
    e = {}
    if sanitizer_env:
        e.update(ASAN_ENV)
    e.update({k: str(v) for k, v in env.items()})
    cmd = (wrapper or []) + [binary]
    rc, so, se = run(cmd, env=e, timeout=timeout, cpu_limit=cpu_limit)
    obs.procs += 1
    ended = parse_output(obs, so, tag)
    reports = parse_sanitizer(se)
    src = dict(binary=os.path.basename(binary), env={k: v for k, v in e.items() if k.startswith('VP_')})
    for key, det in reports:
        det = dict(det or {})
        det['run'] = src
        obs.add_viol(key, det, source=src)
    if rc == -999:
        obs.inconclusive.append('timeout: %s %s' % (os.path.basename(binary), src['env']))
    elif rc < 0 and not reports:
        obs.add_viol('signal:%s:%s' % (signal.Signals(-rc).name if -rc in [s.value for s in signal.Signals] else -rc, tag or ''),
                     dict(stderr=se[-1500:], run=src), source=src)
    elif rc != 0 and not reports and not ended:
        obs.inconclusive.append('monitor exited %d without END: %s %s\n%s' % (rc, os.path.basename(binary), src['env'], se[-800:]))
    elif not ended and not reports:
        obs.inconclusive.append('monitor produced no END line: %s %s' % (os.path.basename(binary), src['env']))
    if ended:
        obs.ended += 1
    # remember which run produced each V| key for replay
    for line in so.splitlines():
        if line.startswith('V|'):
            key = line.split('|', 2)[1]
            if obs.viol[key].get('source') is None:
                obs.viol[key]['source'] = src
    return rc, so, se


def run_parallel(fn, items, workers=None):
    with cf.ThreadPoolExecutor(max_workers=workers or NCPU) as ex:
        return list(ex.map(fn, items))


# ----------------------------------------------------------------------------- known findings
def load_known():
    p = os.path.join(VERIF, 'known_findings.json')
    if not os.path.exists(p):
        return []
    return json.load(open(p)).get('findings', [])


def match_known(known, prop, key):
    for k in known:
        if k.get('status') != 'open' or k.get('property') != prop:
            continue
        if k['key'] == key or fnmatch.fnmatchcase(key, k['key']):
            return k
    return None


# ----------------------------------------------------------------------------- verdict
def finish(prop, level, tier, seed, obs, coverage, assumptions, t0, min_evals=1, extra=None):
    """Write evidence, print verdict lines, return exit code."""
    known = load_known()
    unknown, seen_known = [], {}
    for key, v in sorted(obs.viol.items()):
        k = match_known(known, prop, key)
        if k is not None:
            seen_known.setdefault(k['key'], dict(entry=k, keys=[]))['keys'].append(key)
        else:
            unknown.append((key, v))
    evdir = os.environ.get('VERIF_EVIDENCE_DIR') or os.path.join(VERIF, 'evidence')   # seed tests write their evidence elsewhere
    os.makedirs(evdir, exist_ok=True)
    cov = dict(coverage)
    cov.setdefault('evaluations', int(obs.stats.get('evals', 0)))
    cov['monitor_processes'] = obs.procs
    cov['library_calls'] = int(obs.stats.get('ops', 0))
    cov['arena_bytes_compared'] = int(obs.stats.get('bytes_compared', 0))
    if obs.samples and 'samples' not in cov:
        cov['samples'] = obs.samples[:12]
    if obs.stats.get('fuzz_execs'):
        cov['coverage_guided_executions'] = int(obs.stats['fuzz_execs'])
        cov['coverage_guided_features'] = {k.split('.', 1)[1]: int(v) for k, v in obs.stats.items() if k.startswith('fuzz_features.')}
    cov['violation_keys'] = [k for k, _ in unknown][:50]
    cov['known_findings_seen'] = sorted(seen_known)
    if obs.inconclusive:
        cov['inconclusive'] = obs.inconclusive[:10]
    if obs.notes and 'notes' not in cov:
        cov['notes'] = sorted(set(obs.notes))[:20]
    ev = dict(property_id=prop, tier=tier, seed=int(seed), level=level, coverage=cov,
              assumptions=assumptions, wall_s=round(time.time() - t0, 2), violations=len(unknown))
    if extra:
        ev.update(extra)
    json.dump(ev, open(os.path.join(evdir, prop + '.json'), 'w'), indent=1, default=str)
    for kk, info in sorted(seen_known.items()):
        print('KNOWN-FINDING: property=%s %s [%s]' % (prop, info['entry'].get('what', ''), kk))
    rc = 0
    if unknown:
        rdir = os.path.join(VERIF, 'replays', prop)
        os.makedirs(rdir, exist_ok=True)
        for key, v in unknown:
            h = hashlib.sha1(key.encode()).hexdigest()[:12]
            rp = os.path.join(rdir, h + '.json')
            json.dump(dict(property=prop, key=key, count=v['count'], details=v['details'], run=v.get('source'),
                           seed=int(seed), tier=tier), open(rp, 'w'), indent=1, default=str)
            print('VIOLATION property=%s replay=%s' % (prop, rp))
            print('  key=%s count=%d' % (key, v['count']))
        rc = 1
    if obs.inconclusive and rc == 0:
        for n in obs.inconclusive[:10]:
            print('INCONCLUSIVE property=%s %s' % (prop, n.splitlines()[0] if n else ''), file=sys.stderr)
        rc = 2
    if rc == 0 and cov.get('evaluations', 0) < min_evals:
        print('INCONCLUSIVE property=%s only %d oracle comparisons were made' % (prop, cov.get('evaluations', 0)), file=sys.stderr)
        rc = 2
    print('%s %s tier=%s seed=%s evaluations=%d distinct_nontrivial=%s violations=%d known=%d wall=%.1fs' % (
        prop, {0: 'HELD', 1: 'VIOLATED', 2: 'INCONCLUSIVE'}[rc], tier, seed, cov.get('evaluations', 0),
        cov.get('distinct_nontrivial'), len(unknown), len(seen_known), time.time() - t0))
    return rc


def compile_ilp32(work, name, sources):
    """Build a monitor as a freestanding 32-bit (ILP32, i386) static executable: no 32-bit libc development files exist in
    the sandbox, so mon/platform_ilp32.c supplies _start, system calls, libc byte functions and 64-bit division."""
    srcs = [s for s in sources if os.path.basename(s) != 'platform_native.c'] + [os.path.join(VERIF, 'mon', 'platform_ilp32.c')]
    rc, so, se = run(['gcc', '-print-file-name=include'])
    gi = so.strip()
    flags = ['-m32', '-DVP_ILP32', '-O2', '-ffreestanding', '-fno-pic', '-fno-stack-protector', '-nostdinc', '-isystem', gi,
             '-isystem', os.path.join(VERIF, 'tools', 'stubs')]
    b = compile_many(work, name, srcs, flags, link_flags=['-m32', '-nostdlib', '-static', '-no-pie'])
    # the freestanding runtime sets up no thread-local storage: a program that has a TLS segment cannot run here
    # (any __thread access would fault for a reason that is the runtime's, not the code's) - skipped, not judged
    rc, so, se = run(['readelf', '-lW', b])
    if rc == 0 and re.search(r'^\s*TLS\s', so, re.M):
        raise HarnessError('ILP32 build has a thread-local storage segment, which the freestanding runtime does not provide')
    return b


MSAN_FLAGS = ['-fsanitize=memory', '-fsanitize-memory-track-origins=2', '-fno-omit-frame-pointer', '-O0', '-g']


def compile_msan(work, name, sources):
    """clang MemorySanitizer build of a monitor (everything in the process except libc is instrumented: the monitors are plain C
    and use only libc functions that MSan intercepts).  -O0 keeps locals in memory so that the origin names the variable."""
    try:
        return compile_many(work, name, sources, MSAN_FLAGS, cc='clang')
    except HarnessError as e:
        return None


def run_variant(obs, binary, jobs, seed, label, timeout=1200):
    """Run monitor jobs in an alternative build of the same sources; fold results into obs with a [built-<label>] key suffix."""
    o2 = Obs()
    if binary is None:
        obs.notes.append('variant %s skipped (could not be built in this sandbox)' % label)
        return o2

    def one(env):
        e = dict(env)
        e.setdefault('VP_SEED', seed)
        return run_monitor(o2, binary, e, tag=label, sanitizer_env=False, timeout=timeout, cpu_limit=300 if os.environ.get('VERIF_TIER_EFFECTIVE', 'quick') == 'quick' else 6000)
    run_parallel(one, jobs)
    for k, x in o2.viol.items():
        obs.add_viol('%s[built-%s]' % (k, label), x['details'][0] if x['details'] else None, count=x['count'], source=x.get('source'))
    obs.procs += o2.procs
    obs.ended += o2.ended
    obs.inconclusive += o2.inconclusive
    obs.stat('evals', o2.stats.get('evals', 0))
    obs.stat('ops', o2.stats.get('ops', 0))
    return o2
