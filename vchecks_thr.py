"""C16: library calls are re-entrant (TSan stress + sequential-vs-threaded transcripts + writable image of the real .so)."""
import os, re, time
import vlib
from vlib import VERIF
import vchecks_field as F

CRT_WRITABLE = {'completed.0', '__dso_handle', '__TMC_END__', '_edata', '__bss_start', '_end', '__data_start', 'data_start',
                '__gcov_', '__gcov0', '_GLOBAL_OFFSET_TABLE_', '_DYNAMIC'}


def thr_sources(work, with_lib=True):
    src = (vlib.lib_sources() if with_lib else []) + vlib.gen_bindings(work) + vlib.core_sources()
    return src + [os.path.join(VERIF, 'model', 'vssref.c'), os.path.join(VERIF, 'mon', 'thrmon.c')]


def build_shared_libs(work, build_type='RelWithDebInfo'):
    d = work.path('cmake' if build_type == 'RelWithDebInfo' else 'cmake_' + build_type)
    rc, so, se = vlib.run(['cmake', '-S', vlib.REPO, '-B', d, '-G', 'Ninja', '-DCMAKE_BUILD_TYPE=' + build_type, '-DCMAKE_C_FLAGS=-Wno-error'], timeout=600)
    if rc != 0:
        raise vlib.HarnessError('cmake configure failed: ' + se[-1500:])
    rc, so, se = vlib.run(['cmake', '--build', d, '--target', 'open1722', 'open1722custom'], timeout=900)
    if rc != 0:
        raise vlib.HarnessError('cmake build of the shared libraries failed: ' + (so + se)[-1500:])
    return d


def writable_symbols(libdir):
    """symbols that live in writable, non-relro sections of the shipped libraries"""
    out = []
    for lib in ('libopen1722.so', 'libopen1722custom.so'):
        p = os.path.join(libdir, lib)
        rc, so, se = vlib.run(['objdump', '-t', p])
        if rc != 0:
            raise vlib.HarnessError('objdump failed on ' + p)
        for line in so.splitlines():
            m = re.match(r'^[0-9a-f]+ .{7} (\.data|\.bss|\.tdata|\.tbss)\s+([0-9a-f]+)\s+(\S+)$', line)
            if m and int(m.group(2), 16) > 0:
                out.append((lib, m.group(1), m.group(3), int(m.group(2), 16)))
    return out


PROCESS_STATE_IMPORTS = {'malloc', 'calloc', 'realloc', 'free', 'aligned_alloc', 'posix_memalign', 'memalign', 'valloc', 'strdup', 'strndup',
                         '__errno_location', 'rand', 'srand', 'random', 'srandom', 'strtok', 'localtime', 'gmtime', 'asctime', 'ctime', 'setlocale',
                         'strerror', 'getenv', 'setenv', 'putenv', 'tmpnam', 'signal', 'sigaction', 'atexit'}


def process_state_imports(libdir):
    """undefined dynamic symbols of the shipped libraries that reach process-wide state (allocator, errno, non-reentrant libc
    functions): the pinned libraries import memcpy/memset only"""
    out = []
    for lib in ('libopen1722.so', 'libopen1722custom.so'):
        rc, so, se = vlib.run(['objdump', '-T', os.path.join(libdir, lib)])
        if rc != 0:
            raise vlib.HarnessError('objdump -T failed on ' + lib)
        for line in so.splitlines():
            if '*UND*' in line:
                name = line.split()[-1]
                if name in PROCESS_STATE_IMPORTS:
                    out.append((lib, name))
    return out


def c16(tier, seed):
    t0 = time.time()
    work = vlib.Work('C16')
    try:
        obs = vlib.Obs()
        tsan = vlib.compile_many(work, 'thrmon_tsan', thr_sources(work), ['-O1', '-g', '-fno-omit-frame-pointer', '-fsanitize=thread'], link_flags=['-lpthread'])
        # an unoptimised build keeps objects (scratch variables, write-only statics) that -O1 deletes
        tsan0 = vlib.compile_many(work, 'thrmon_tsan_O0', thr_sources(work), ['-O0', '-g', '-fno-omit-frame-pointer', '-fsanitize=thread'], link_flags=['-lpthread'])
        libdir = build_shared_libs(work)
        libdir_dbg = build_shared_libs(work, 'Debug')
        img = vlib.compile_many(work, 'thrmon_image', thr_sources(work, with_lib=False), ['-O1', '-g'],
                                link_flags=['-L' + libdir, '-lopen1722', '-lopen1722custom', '-Wl,-rpath,' + libdir, '-lpthread'])
        E = 12 if tier == 'quick' else 600
        jobs = []
        for i, T in enumerate([2, 4, 8, 16] * (1 if tier == 'quick' else 4)):
            jobs.append((tsan, dict(VP_THREADS=T, VP_EPISODES=E, VP_OPS=1500, VP_SEED=int(seed) * 100 + i, VP_NOISE=6 if i % 2 == 0 else 40), 'tsan'))
        for i, T in enumerate([4, 16] * (1 if tier == 'quick' else 3)):
            jobs.append((tsan0, dict(VP_THREADS=T, VP_EPISODES=max(4, E // 3), VP_OPS=1500, VP_SEED=int(seed) * 100 + 50 + i, VP_NOISE=6 if i % 2 == 0 else 40), 'tsan'))
        ntsan = len(jobs)
        jobs.append((img, dict(VP_THREADS=8, VP_EPISODES=E, VP_OPS=1500, VP_SEED=seed, VP_IMAGE=1, LD_BIND_NOW=1), 'image'))
        jobs.append((img, dict(VP_THREADS=16, VP_EPISODES=E, VP_OPS=800, VP_SEED=int(seed) + 7, VP_IMAGE=1, LD_BIND_NOW=1, VP_NOISE=40), 'image'))
        tsan_env = {'TSAN_OPTIONS': 'halt_on_error=0:second_deadlock_stack=1:report_signal_unsafe=0:exitcode=0'}

        def one(j):
            b, env, tag = j
            e = dict(env)
            if tag == 'tsan':
                e.update(tsan_env)
            o = vlib.Obs()
            rc, so, se = vlib.run_monitor(o, b, e, tag=tag, sanitizer_env=False, timeout=3000)
            races = []
            for m in re.finditer(r'WARNING: ThreadSanitizer: ([^\n(]+)(.*?)(?=\n={18}|\Z)', se, re.S):
                kind = m.group(1).strip().replace(' ', '-')
                frames = [(fm.group(1), vlib.norm_path(fm.group(2))) for fm in re.finditer(r'#\d+ (?:0x[0-9a-f]+ in )?(\S+) (/\S+?):(\d+)', m.group(2))]
                libfr = [f for f in frames if f[1].startswith('src/') or f[1].startswith('include/')]
                races.append((kind, libfr[0] if libfr else None, m.group(0)[:1500]))
            return j, o, races
        nraces = 0
        for (b, env, tag), o, races in vlib.run_parallel(one, jobs, workers=4):
            obs.procs += o.procs
            obs.ended += o.ended
            obs.inconclusive += o.inconclusive
            for k, v in o.stats.items():
                obs.stat(k, v)
            obs.samples += o.samples[:2]
            for key, v in o.viol.items():
                if key.startswith('ThreadSan'):
                    continue
                obs.add_viol(key, v['details'][0] if v['details'] else None, count=v['count'], source=v.get('source'))
            for kind, fr, text in races:
                nraces += 1
                if fr is None:
                    obs.inconclusive.append('ThreadSanitizer report without a frame in the library (harness race?): ' + text[:300])
                else:
                    obs.add_viol('TSan:%s:%s:%s' % (kind, fr[1], fr[0]), dict(report=text, threads=env.get('VP_THREADS')))
        syms = writable_symbols(libdir)
        syms_dbg = writable_symbols(libdir_dbg)
        for label, ss in (('', syms), ('[Debug-build]', syms_dbg)):
            for lib, sec, name, size in ss:
                if any(name == a or name.startswith(a) for a in CRT_WRITABLE):
                    continue
                if label and any(x[2] == name and x[0] == lib for x in syms):
                    continue
                obs.add_viol('writable-global:%s:%s:%s%s' % (lib, sec, name, label), dict(size=size, note='object in a writable section of the shipped library'))
        syms = syms + [('Debug:' + a, b, c2, d) for a, b, c2, d in syms_dbg]
        imports = sorted(set(process_state_imports(libdir) + process_state_imports(libdir_dbg)))
        for lib, name in imports:
            obs.add_viol('process-state-import:%s:%s' % (lib, name), dict(note='the shipped library calls a function that reads or writes process-wide state (allocator, errno, non-reentrant libc state) - an object that was not passed to it'))
        obs.stat('evals', len(syms) + 1)
        cov = dict(distinct_nontrivial=int(obs.stats.get('thr.distinct_interleavings', 0)),
                   episodes=int(obs.stats.get('thr.episodes', 0)), shared_read_events=int(obs.stats.get('thr.shared_reads', 0)),
                   tsan_reports=nraces, transcript_mismatches=int(obs.stats.get('thr.transcript_mismatches', 0)),
                   writable_image_bytes=int(obs.stats.get('img.writable_bytes', 0)),
                   writable_symbols=['%s %s %s (%d bytes)' % s for s in syms],
                   rule='ThreadSanitizer builds (-O1 and -O0): %d runs with 2/4/8/16 threads x %d episodes x 1500 calls per thread (field get/set/init '
                        'over all formats, CAN builders, VSS encode/decode on private arenas with model oracles; concurrent read-only '
                        'getters/decoders on a pool of 64 shared PDUs), scheduling noise (sched_yield / nanosleep) between calls; each '
                        'thread transcript must equal the same script run alone.  Real libopen1722.so/libopen1722custom.so (CMake, as '
                        'shipped): writable PT_LOAD segments minus RELRO hashed before the first library call and after the single- and '
                        'multi-threaded workloads; objects in .data/.bss/.tdata/.tbss other than C-runtime bookkeeping are listed, and so are imports of functions that reach process-wide state (allocator, errno, non-reentrant libc functions) (RelWithDebInfo and Debug builds); every library call of the stress run must leave errno as it found it.  distinct_nontrivial '
                        '= distinct interleavings observed (hash of the thread-id sequence in ticket order).' % (ntsan, E))
        return vlib.finish('C16', 'exploration', tier, seed, obs, cov, [
            'ThreadSanitizer observes only the interleavings that executed; the structural part of the claim rests on the writable-image observation',
            'tickets come from a relaxed atomic counter and add no happens-before edge',
            'monitor state is per thread (context, arenas, PRNG); output lines are single write(2) calls'],
            t0, min_evals=10000)
    finally:
        work.cleanup()


CHECKS = dict(C16=c16)
